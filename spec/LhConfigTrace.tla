------------------------------ MODULE LhConfigTrace ------------------------------
(* Trace spec for X01.  One TLC run judges a whole batch of traces recorded from the real
   LighthouseMemory / LighthouseMemHelper / LighthouseConfigWriter (Init picks a trace id).

   A trace is a sequence of CHUNKS; a chunk is one stimulus (a top-level user call, one answer of
   the memory subsystem, one persist acknowledgement, or the final quiescence report) together with
   every observable event it caused, in order:
        [stim |-> "call" | "ans" | "pack" | "fin", d, f  (call: descriptor and what the completion
         callback will issue), ev |-> <<events of LhConfigProps!Ev shape>>]

   monitor (the verdict): the events are folded into the observer of LhConfigProps, nothing of the
            design spec is assumed; the first failing clause is remembered in m.bad / m.badAt.
   conform (the binding): the same stimulus must be an enabled action of LhConfig whose computed
            event list equals the recorded chunk (T.bugs says which variant of the code the design
            spec is to be: the as-is behaviour has "wedge" and "pack").                         *)
EXTENDS Naturals, Integers, Sequences, FiniteSets, TLC, Json, IOUtils

Traces == JsonDeserialize(IOEnv.TRACE_FILE)

VARIABLES tid, l,
          m,                       \* monitor
          conf, confAt,            \* conformance verdict
          s, mon                   \* design-spec variables

NCH == 16
NBS == 16            \* unused: Init below takes nbs from the trace
Menu == {}
Follow == {}
ReadData == {}
MaxReq == 100000
Bugs == {}           \* unused: Init below takes bugs from the trace

D == INSTANCE LhConfig
P == INSTANCE LhConfigProps WITH NCh <- NCH

T == Traces[tid]
C == T.chunks[l]
ToSet(q) == {q[i] : i \in DOMAIN q}

Init == /\ tid \in 1..Len(Traces)
        /\ l = 1
        /\ m = P!Init
        /\ conf = TRUE /\ confAt = 0
        /\ s = [upd |-> "", wr |-> "",
                rd |-> [o \in D!Owners |-> D!IdleR],
                wt |-> [o \in D!Owners |-> D!IdleW],
                cw |-> D!IdleC, reg |-> FALSE, qw |-> <<>>, qr |-> <<>>, pp |-> 0, then |-> <<>>,
                nbs |-> Traces[tid].nbs, bugs |-> ToSet(Traces[tid].bugs),
                out |-> <<>>, exc |-> FALSE]
        /\ mon = P!Init

Conform(A) == IF conf /\ ENABLED A
              THEN A /\ UNCHANGED <<conf, confAt>>
              ELSE /\ conf' = FALSE /\ confAt' = (IF conf THEN l ELSE confAt)
                   /\ UNCHANGED <<s, mon>>

Stim == CASE C.stim = "call" -> D!Call(C.d, C.f) /\ s'.out = C.ev
          [] C.stim = "ans" /\ C.ev[1].op = "w" -> D!AnsW(C.ev[1].ok) /\ s'.out = C.ev
          [] C.stim = "ans" /\ C.ev[1].op = "r" -> D!AnsR(C.ev[1].ok, <<C.ev[1].tag, C.ev[1].val>>) /\ s'.out = C.ev
          [] C.stim = "pack" -> D!Pack(C.ev[1].ok) /\ s'.out = C.ev
          [] OTHER -> D!Quiescent /\ UNCHANGED <<s, mon>>

Step == /\ l <= Len(T.chunks)
        /\ l' = l + 1 /\ UNCHANGED tid
        /\ m' = P!Fold(m, C.ev)
        /\ Conform(Stim)

Finish == /\ l = Len(T.chunks) + 1
          /\ l' = l + 1
          /\ PrintT(<<"VERDICT", T.id, m.bad, m.badAt, conf, confAt>>)
          /\ UNCHANGED <<tid, m, conf, confAt, s, mon>>

Next == Step \/ Finish
Spec == Init /\ [][Next]_<<tid, l, m, conf, confAt, s, mon>>
=============================================================================
