---- MODULE MC_Dispatch ----
EXTENDS Dispatch
Pat(a, b, c, d) == [port |-> a, pmask |-> b, chan |-> c, cmask |-> d]
\* port callback on 3; header callback on 3/1; bit-mask pattern (ports with bit 1 set)
PatternsQuick == {Pat(3, 255, 0, 0), Pat(3, 255, 1, 255), Pat(2, 2, 0, 0)}
\* + match-all, never-matching 0xFF port, channel-mask pattern
PatternsThorough == PatternsQuick \cup {Pat(0, 0, 0, 0), Pat(255, 255, 0, 0), Pat(5, 255, 2, 2),
                                        Pat(5, 4, 0, 0), Pat(13, 255, 3, 0)}   \* bits outside the mask: never match
HeadersQuick == {48, 49, 114}
HeadersThorough == {48, 49, 114, 82, 147}
====
