------------------------------ MODULE LogHelper ------------------------------
(* Design spec of the two log-based helpers (X02, extra specification):
     mode "ranger"     cflib.utils.multiranger.Multiranger  (start / stop / context manager, one cycle
                       per object) on top of Log / LogConfig
     mode "estimator"  cflib.utils.reset_estimator.reset_estimator on top of Param.set_value and
                       SyncLogger (connect, iterate, disconnect; DISCONNECT_EVENT on link loss)
   One action per yield-to-yield region with an observable effect; every action emits exactly one event
   `obs` (same records the harness logs from the real code); mon/bad = LogHelperProps' monitor.

   user thread (pc):
     ranger     "idle" -Begin(op)-> "send" -SendCreate/SendDelete-> "end" -End-> "idle"
                ("send" -End-> when the link is gone: LogConfig.start/delete do nothing then)
     estimator  "idle" -Begin("reset")-> "call1" -PCall(1)-> "call0" -PCall(0) [after the 0.1 s sleep]->
                "send" -SendCreate-> "loop" -UTake-> "loop" | "stop" -SendStop-> "delete" -SendDelete->
                "end" -End-> "done";   a raising step leads to "end" with rres = exception name
   updater:     PTx  the next queued parameter write is transmitted (previous one answered)
   dispatcher:  DispP (write reply), DispAck (log control ack; a successful create ack of a block that is not
                yet added makes it send START: SendStart), DispData (Log._new_packet_cb -> unpack ->
                Multiranger._data_received / SyncLogger._log_callback)
   environment: the device executes control messages when they arrive and answers at once into the host's
                in_queue (`inq`); EmitData(v): a started block sends a sample; LinkDrop.            *)
EXTENDS Naturals, Integers, Sequences, FiniteSets, TLC

CONSTANTS Mode,        \* "ranger" | "estimator"
          Rates,       \* rate_ms values of the Multiranger (estimator: always 500)
          Scripts,     \* ranger: sequences of operations, e.g. <<"start","stop">>, <<"enter","exit">>, <<"enter","exitexc">>
          Vectors,     \* sample vectors the device may send
          MaxData,     \* samples per execution
          MaxQ,        \* bound on undelivered packets (keeps the model finite)
          Times,       \* possible delays (ms) of the second set_value after the first
          LinkLoss,    \* BOOLEAN
          HasKalman,   \* set of BOOLEAN: the device has kalman.resetEstimation
          Bug

P == INSTANCE LogHelperProps

VARIABLES rate, haskalman, script,          \* configuration chosen by Setup
          pc, op, excbody, rres, si,        \* user thread; si = next script position
          bid, ladded, pendstart,           \* library: id of the helper's block (0 none), block.added, START to send
          lccf,                             \* Log.add_config accepted the configuration (LogConfig.cf is set)
          toc, pcpend,                      \* parameter table present; Param._disconnected is about to run
          scb, discpend, sconn,             \* SyncLogger: its callbacks are registered; its disconnected callback is about
                                            \* to run; _is_connected
          vals,                             \* ranger: the six properties (mm, -1 = None)
          window, syncq,                    \* estimator: history window, SyncLogger queue
          pq, pinfl, t1, now,               \* parameter writes queued / in flight, time of the first call, clock
          dblk,                             \* device: [id, started, per] or NoBlk
          inq, link, ndata,
          obs, mon, bad

vars == <<rate, haskalman, script, pc, op, excbody, rres, si, bid, ladded, pendstart, lccf, toc, pcpend, scb, discpend, sconn, vals, window, syncq,
          pq, pinfl, t1, now, dblk, inq, link, ndata, obs, mon, bad>>
view == <<rate, haskalman, script, pc, op, excbody, rres, si, bid, ladded, pendstart, lccf, toc, pcpend, scb, discpend, sconn, vals, window, syncq,
          pq, pinfl, t1, now, dblk, inq, link, ndata, mon, bad>>

NoBlk == [id |-> 0, started |-> FALSE, per |-> 0]
DISC == <<>>            \* SyncLogger.DISCONNECT_EVENT in the sample queue
E0 == [e |-> "", op |-> "", cmd |-> "", id |-> 0, vars |-> <<>>, per |-> 0, st |-> 0, vals |-> <<>>,
       read |-> <<>>, v |-> 0, t |-> 0, res |-> ""]

Emit(ev) == /\ obs' = ev
            /\ mon' = P!Apply(mon, ev)
            /\ bad' = IF bad = "ok" THEN P!EventClause(mon, ev) ELSE bad

Init == /\ rate = 0 /\ haskalman = TRUE /\ script = <<>>
        /\ pc = "setup" /\ op = "" /\ excbody = FALSE /\ rres = "" /\ si = 1
        /\ bid = 0 /\ ladded = FALSE /\ pendstart = FALSE /\ lccf = FALSE /\ toc = TRUE /\ pcpend = FALSE /\ scb = FALSE /\ discpend = FALSE /\ sconn = FALSE
        /\ vals = [j \in 1..6 |-> -1]
        /\ window = P!Window0 /\ syncq = <<>>
        /\ pq = <<>> /\ pinfl = FALSE /\ t1 = 0 /\ now = 0
        /\ dblk = NoBlk /\ inq = <<>> /\ link = "up" /\ ndata = 0
        /\ obs = E0 /\ mon = P!M0(Mode, 0, TRUE) /\ bad = "ok"

Setup(r, hk, sc) ==
    /\ pc = "setup"
    /\ rate' = r /\ haskalman' = hk /\ script' = sc /\ pc' = "idle"
    /\ obs' = [E0 EXCEPT !.e = "setup"] /\ mon' = P!M0(Mode, r, hk) /\ bad' = bad
    /\ UNCHANGED <<toc, pcpend, sconn, scb, discpend, lccf, op, excbody, rres, si, bid, ladded, pendstart, vals, window, syncq, pq, pinfl, t1, now,
                   dblk, inq, link, ndata>>

\* ---- device -------------------------------------------------------------------------------
\* the device executes a control message and puts its acknowledgement into the host's queue
DevCtl(cmd, id, per) ==
    LET ex == dblk.id = id /\ id # 0
        st == CASE cmd = "create" -> IF ex THEN 17 ELSE 0
                [] OTHER -> IF ex THEN 0 ELSE 2
    IN /\ dblk' = CASE cmd = "create" /\ ~ex -> [id |-> id, started |-> FALSE, per |-> 0]
                    [] cmd = "start" /\ ex -> [dblk EXCEPT !.started = TRUE, !.per = per]
                    [] cmd = "stop" /\ ex -> [dblk EXCEPT !.started = FALSE]
                    [] cmd = "delete" /\ ex -> NoBlk
                    [] OTHER -> dblk
       /\ inq' = Append(inq, [t |-> "ack", cmd |-> cmd, id |-> id, st |-> st, vals |-> <<>>])

MyVars == IF Mode = "ranger" THEN P!RangerVars ELSE P!EstVars
\* seeded defects of the variable list
BugVars == CASE Bug = "swapLeftRight" -> [MyVars EXCEPT ![3] = MyVars[4], ![4] = MyVars[3]]
             [] Bug = "noZrange" -> SubSeq(MyVars, 1, 5)
             [] OTHER -> MyVars
Period == IF Mode = "ranger" THEN rate \div 10 ELSE 50

\* ---- user thread ---------------------------------------------------------------------------
CanSet == haskalman /\ toc

Begin ==
    /\ pc = "idle" /\ si <= Len(script)
    /\ LET o == script[si] IN
       /\ op' = (IF o = "exitexc" THEN "exit" ELSE o)
       /\ excbody' = (o = "exitexc")
       \* Log.add_config does nothing without a link and LogConfig.start()/delete() of a configuration
       \* that was never accepted raise (its cf is None)
       /\ pc' = CASE o = "reset" -> (IF CanSet THEN "call1" ELSE "end")
                  [] o \in {"start", "enter"} -> (IF link = "up" THEN "send" ELSE "end")
                  [] OTHER -> (IF lccf THEN "send" ELSE "end")
       /\ rres' = CASE o = "reset" -> (IF CanSet THEN "" ELSE "KeyError")
                    [] o \in {"start", "enter"} -> (IF link = "up" THEN "" ELSE "AttributeError")
                    [] OTHER -> (IF lccf THEN "" ELSE "AttributeError")
       /\ lccf' = (lccf \/ (o \in {"start", "enter"} /\ link = "up"))
       /\ Emit([E0 EXCEPT !.e = "begin", !.op = (IF o = "exitexc" THEN "exit" ELSE o),
                          !.res = (IF o = "exitexc" THEN "exc" ELSE "")])
    /\ si' = si + 1
    /\ UNCHANGED <<toc, pcpend, sconn, scb, discpend, rate, haskalman, script, bid, ladded, pendstart, vals, window, syncq, pq, pinfl, t1, now,
                   dblk, inq, link, ndata>>

\* Param.set_value('kalman.resetEstimation', v) finds the parameter (KeyError otherwise: the table lacks it
\* or was emptied by a disconnect); the lookup is made at the end of the previous region
\* the write request is put on the updater's FIFO
PCall(v, t) ==
    /\ pc = (IF v = 1 THEN "call1" ELSE "call0")
    /\ t >= now /\ now' = t
    /\ pq' = Append(pq, v)
    /\ t1' = (IF v = 1 THEN t ELSE t1)
    \* after the second call SyncLogger.connect() runs up to the transmission of the create message; on a
    \* link that is already gone add_config() does nothing and LogConfig.start() raises (its cf is None)
    /\ pc' = (IF v = 1 /\ Bug # "noZeroWrite" THEN "sleep" ELSE IF link = "up" THEN "send" ELSE "end")
    /\ rres' = (IF (v = 0 \/ Bug = "noZeroWrite") /\ link # "up" THEN "AttributeError" ELSE rres)
    /\ lccf' = (lccf \/ ((v = 0 \/ Bug = "noZeroWrite") /\ link = "up"))
    /\ scb' = (scb \/ ((v = 0 \/ Bug = "noZeroWrite") /\ link = "up"))      \* SyncLogger.connect()
    /\ discpend' = discpend
    /\ Emit([E0 EXCEPT !.e = "pcall", !.v = v, !.t = t])
    /\ UNCHANGED <<toc, pcpend, sconn, rate, haskalman, script, op, excbody, si, bid, ladded, pendstart, vals, window, syncq, pinfl,
                   dblk, inq, link, ndata>>

\* time.sleep(0.1) returned after dt >= 100 ms; set_value(..., '0') looks the parameter up
SleepWake(dt) ==
    /\ pc = "sleep" /\ dt >= (IF Bug = "shortSleep" THEN 10 ELSE 100) /\ t1 + dt >= now
    /\ now' = t1 + dt
    /\ pc' = (IF CanSet THEN "call0" ELSE "end")
    /\ rres' = (IF CanSet THEN rres ELSE "KeyError")
    /\ Emit([E0 EXCEPT !.e = "wake", !.t = t1 + dt])
    /\ UNCHANGED <<toc, pcpend, sconn, scb, discpend, lccf, rate, haskalman, script, op, excbody, si, bid, ladded, pendstart, vals, window, syncq, pq, pinfl, t1,
                   dblk, inq, link, ndata>>

\* Log.add_config + LogConfig.start() -> create(): one CREATE_BLOCK_V2 message
SendCreate ==
    /\ pc = "send" /\ op \in {"start", "enter", "reset"} /\ link = "up"
    /\ bid' = bid + 1
    /\ DevCtl("create", bid + 1, 0)
    /\ pc' = (IF op = "reset" THEN "loop" ELSE "end")
    /\ sconn' = (op = "reset")         \* SyncLogger.connect() is through
    /\ Emit([E0 EXCEPT !.e = "ctl", !.cmd = "create", !.id = bid + 1, !.vars = BugVars])
    /\ UNCHANGED <<toc, pcpend, scb, discpend, lccf, rate, haskalman, script, op, excbody, rres, si, ladded, pendstart, vals, window, syncq, pq,
                   pinfl, t1, now, link, ndata>>

\* LogConfig.delete() (ranger: Multiranger.stop; estimator: SyncLogger.disconnect after stop)
SendDelete ==
    /\ link = "up" /\ bid # 0
    /\ \/ pc = "send" /\ op \in {"stop", "exit"}
       \/ pc = "delete"
    /\ Bug # "noDelete"
    /\ DevCtl("delete", bid, 0)
    /\ pc' = "end"
    /\ sconn' = FALSE /\ scb' = FALSE                 \* SyncLogger.disconnect() removes its callbacks after the delete
    /\ Emit([E0 EXCEPT !.e = "ctl", !.cmd = "delete", !.id = bid])
    /\ UNCHANGED <<toc, pcpend, discpend, lccf, rate, haskalman, script, op, excbody, rres, si, bid, ladded, pendstart, vals, window, syncq, pq,
                   pinfl, t1, now, link, ndata>>

SendStop ==
    /\ pc = "stop" /\ link = "up"
    /\ DevCtl("stop", bid, 0)
    /\ pc' = "delete"
    /\ Emit([E0 EXCEPT !.e = "ctl", !.cmd = "stop", !.id = bid])
    /\ UNCHANGED <<toc, pcpend, sconn, scb, discpend, lccf, rate, haskalman, script, op, excbody, rres, si, bid, ladded, pendstart, vals, window, syncq, pq,
                   pinfl, t1, now, link, ndata>>

\* the estimator loop takes the next item of the SyncLogger queue
UTake ==
    /\ syncq # <<>>
    /\ pc = "loop" \/ (pc = "send" /\ op = "reset" /\ link # "up")
    /\ sconn' = (sconn \/ pc = "send")      \* (connect() ended without transmitting: the link was gone)
    /\ LET s == Head(syncq)
           w == IF s = DISC THEN window ELSE P!Push(window, s)
           leave == s = DISC \/ P!Converged(w) \/ Bug = "firstSample"
       IN /\ window' = w
          \* after the loop body SyncLogger.__next__ looks at _is_connected before it waits again
          /\ pc' = IF s = DISC \/ (~sconn /\ pc = "loop") THEN "end"
                   ELSE IF leave THEN (IF link = "up" THEN "stop" ELSE "end") ELSE "loop"
          /\ Emit([E0 EXCEPT !.e = "take", !.vals = s])
    /\ syncq' = Tail(syncq)
    /\ UNCHANGED <<toc, pcpend, scb, discpend, lccf, rate, haskalman, script, op, excbody, rres, si, bid, ladded, pendstart, vals, pq, pinfl, t1,
                   now, dblk, inq, link, ndata>>

EndRes == IF rres # "" THEN rres
          ELSE IF op = "enter" THEN "self"
          ELSE IF op = "exit" /\ excbody THEN (IF Bug = "swallow" THEN "swallowed" ELSE "propagated")
          ELSE ""

End ==
    /\ \/ pc = "end"
       \/ pc = "send" /\ op # "reset" /\ (link # "up" \/ (op \in {"stop", "exit"} /\ Bug = "noDelete"))
       \/ pc \in {"stop", "delete"} /\ link # "up"
    /\ pc' = "idle"
    /\ Emit([E0 EXCEPT !.e = "end", !.op = op, !.res = EndRes])
    /\ op' = ""
    /\ UNCHANGED <<toc, pcpend, sconn, scb, discpend, lccf, rate, haskalman, script, excbody, rres, si, bid, ladded, pendstart, vals, window, syncq, pq, pinfl,
                   t1, now, dblk, inq, link, ndata>>

\* ---- updater ------------------------------------------------------------------------------
PTx ==
    /\ pq # <<>> /\ ~pinfl /\ link = "up"
    /\ pq' = Tail(pq) /\ pinfl' = TRUE
    /\ inq' = Append(inq, [t |-> "prx", cmd |-> "", id |-> 0, st |-> 0, vals |-> <<Head(pq)>>])
    /\ Emit([E0 EXCEPT !.e = "pset", !.v = Head(pq)])
    /\ UNCHANGED <<toc, pcpend, sconn, scb, discpend, lccf, rate, haskalman, script, pc, op, excbody, rres, si, bid, ladded, pendstart, vals, window, syncq,
                   t1, now, dblk, link, ndata>>

\* ---- dispatcher ---------------------------------------------------------------------------
DispP ==
    /\ inq # <<>> /\ Head(inq).t = "prx" /\ ~pendstart
    /\ inq' = Tail(inq) /\ pinfl' = FALSE
    /\ Emit([E0 EXCEPT !.e = "prx", !.v = Head(inq).vals[1]])
    /\ UNCHANGED <<toc, pcpend, sconn, scb, discpend, lccf, rate, haskalman, script, pc, op, excbody, rres, si, bid, ladded, pendstart, vals, window, syncq,
                   pq, t1, now, dblk, link, ndata>>

DispAck ==
    /\ inq # <<>> /\ Head(inq).t = "ack" /\ ~pendstart
    /\ LET a == Head(inq) IN
       /\ inq' = Tail(inq)
       /\ pendstart' = (a.cmd = "create" /\ a.id = bid /\ a.st \in {0, 17} /\ ~ladded /\ link = "up")
       /\ ladded' = IF a.cmd = "delete" /\ a.id = bid /\ a.st \in {0, 2} THEN FALSE
                    ELSE IF a.cmd = "create" /\ a.id = bid /\ a.st \in {0, 17} /\ link # "up" THEN TRUE   \* START not sent
                    ELSE ladded
       /\ Emit([E0 EXCEPT !.e = "ack", !.cmd = a.cmd, !.id = a.id, !.st = a.st])
    /\ UNCHANGED <<toc, pcpend, sconn, scb, discpend, lccf, rate, haskalman, script, pc, op, excbody, rres, si, bid, vals, window, syncq, pq, pinfl, t1, now,
                   dblk, link, ndata>>

\* Log._new_packet_cb on a successful create ack: START_LOGGING is sent from the dispatcher, then block.added = True
SendStart ==
    /\ pendstart /\ link = "up"
    /\ pendstart' = FALSE /\ ladded' = TRUE
    /\ DevCtl("start", bid, Period)
    /\ Emit([E0 EXCEPT !.e = "ctl", !.cmd = "start", !.id = bid,
                       !.per = (IF Bug = "period" THEN Period * 10 ELSE Period)])
    /\ UNCHANGED <<toc, pcpend, sconn, scb, discpend, lccf, rate, haskalman, script, pc, op, excbody, rres, si, bid, vals, window, syncq, pq, pinfl, t1, now,
                   link, ndata>>

RConv(v) == CASE Bug = "limit" -> IF v > 8000 THEN -1 ELSE v
              [] Bug = "noLimit" -> v
              [] OTHER -> P!Conv(v)

\* the dispatcher dispatches a data packet: Log._new_packet_cb -> unpack_log_data -> data_received_cb ->
\* Multiranger._data_received sets the properties / SyncLogger._log_callback queues the sample
DispData ==
    /\ inq # <<>> /\ Head(inq).t = "data" /\ ~pendstart
    /\ LET d == Head(inq)
           mine == d.id = bid /\ bid # 0
           nv == IF Mode = "ranger" /\ mine THEN [j \in 1..6 |-> RConv(d.vals[j])] ELSE vals
       IN /\ inq' = Tail(inq)
          /\ vals' = nv
          /\ syncq' = IF Mode = "estimator" /\ mine /\ scb THEN Append(syncq, d.vals) ELSE syncq
          /\ Emit([E0 EXCEPT !.e = "data", !.id = d.id, !.vals = d.vals,
                             !.read = (IF Mode = "ranger" THEN nv ELSE <<>>)])
    /\ UNCHANGED <<toc, pcpend, scb, discpend, sconn, lccf, rate, haskalman, script, pc, op, excbody, rres, si, bid, ladded,
                   pendstart, window, pq, pinfl, t1, now, dblk, link, ndata>>

\* ---- environment --------------------------------------------------------------------------
EmitData(v) ==
    /\ link = "up" /\ dblk.id # 0 /\ dblk.started /\ ndata < MaxData /\ Len(inq) < MaxQ
    /\ ndata' = ndata + 1
    /\ inq' = Append(inq, [t |-> "data", cmd |-> "", id |-> dblk.id, st |-> 0, vals |-> v])
    /\ Emit([E0 EXCEPT !.e = "emit", !.id = dblk.id, !.vals = v])
    /\ UNCHANGED <<toc, pcpend, sconn, scb, discpend, lccf, rate, haskalman, script, pc, op, excbody, rres, si, bid, ladded, pendstart, vals, window, syncq,
                   pq, pinfl, t1, now, dblk, link>>

\* link error: link closed, cf.link = None, disconnected callbacks (SyncLogger: DISCONNECT_EVENT when its
\* callback is registered, i.e. from connect() on; Param: updater emptied)
LinkDrop ==
    /\ LinkLoss /\ link = "up" /\ pc # "setup"
    /\ link' = "down" /\ pcpend' = TRUE /\ toc' = toc /\ pq' = pq /\ pinfl' = pinfl
    /\ discpend' = scb /\ scb' = scb /\ syncq' = syncq
    /\ pendstart' = FALSE /\ ladded' = (ladded \/ pendstart)      \* a START under way is lost with the link
    /\ Emit([E0 EXCEPT !.e = "down"])
    /\ UNCHANGED <<sconn, lccf, rate, haskalman, script, pc, op, excbody, rres, si, bid, vals, window, t1, now,
                   dblk, inq, ndata>>

\* Param._disconnected: updater emptied and released, parameter table dropped
ParamClose ==
    /\ pcpend
    /\ pcpend' = FALSE /\ toc' = FALSE /\ pq' = <<>> /\ pinfl' = FALSE
    /\ Emit([E0 EXCEPT !.e = "updclose"])
    /\ UNCHANGED <<scb, discpend, sconn, lccf, rate, haskalman, script, pc, op, excbody, rres, si, bid, ladded, pendstart, vals,
                   window, syncq, t1, now, dblk, inq, link, ndata>>

\* SyncLogger._disconnected (one of the last disconnected callbacks): disconnect() -- the link is gone, so
\* nothing is sent; the callbacks are removed if connect() had finished -- and DISCONNECT_EVENT is queued
SyncDisc ==
    /\ discpend /\ ~pcpend          \* (registered after Param's callback)
    /\ discpend' = FALSE
    /\ scb' = (scb /\ ~sconn)            \* connect() not through yet: _is_connected is False, nothing is removed
    /\ sconn' = FALSE
    /\ syncq' = Append(syncq, DISC)
    /\ Emit([E0 EXCEPT !.e = "disc"])
    /\ UNCHANGED <<toc, pcpend, lccf, rate, haskalman, script, pc, op, excbody, rres, si, bid, ladded, pendstart, vals, window, pq,
                   pinfl, t1, now, dblk, inq, link, ndata>>

\* ---- next-state relation ------------------------------------------------------------------
UserNoTime == Begin \/ SendCreate \/ SendDelete \/ SendStop \/ UTake \/ End
User   == PCall(1, now) \/ PCall(0, now) \/ (\E dt \in Times : SleepWake(dt)) \/ UserNoTime
Lib    == PTx \/ DispP \/ DispAck \/ SendStart \/ DispData \/ ParamClose \/ SyncDisc
System == User \/ Lib
Env    == (\E v \in Vectors : EmitData(v)) \/ LinkDrop
NextNoConfig == System \/ Env
Next == (\E r \in Rates, hk \in HasKalman, sc \in Scripts : Setup(r, hk, sc)) \/ NextNoConfig

Spec     == Init /\ [][Next]_vars
FairSpec == Spec /\ WF_vars(System)

\* ---- properties ---------------------------------------------------------------------------
PropsOK == bad = "ok"
NoCreateNotAsConfigured == bad # "CreateNotAsConfigured"
NoStartNotAsConfigured  == bad # "StartNotAsConfigured"
NoWrongDistance         == bad # "WrongDistance"
NoStopDidNotDelete      == bad # "StopDidNotDelete"
NoExitSwallowed         == bad # "ExitSwallowedException"
NoResetPulseWrong       == bad # "ResetPulseWrong"
NoReturnedBeforeConverged == bad # "ReturnedBeforeConverged"

InOp == pc \notin {"setup", "idle"}
Stuck == InOp /\ ~ENABLED System
NoHang == Stuck => P!EndClause(mon, TRUE, 0) = "ok"
\* when everything has been said and done, the device holds no block of the helper
Quiet == pc = "idle" /\ si > Len(script) /\ ~ENABLED System
NoBlockLeft == Quiet => P!EndClause(mon, FALSE, IF dblk.id # 0 THEN 1 ELSE 0) = "ok"

TypeOK == /\ pc \in {"setup", "idle", "send", "end", "call1", "sleep", "call0", "loop", "stop", "delete"}
          /\ link \in {"up", "down"} /\ ndata \in 0..MaxData
=============================================================================
