------------------------------ MODULE SwarmTrace ------------------------------
(* Trace spec for C19.  One TLC run judges a whole batch of traces recorded from the real
   cflib.crazyflie.swarm.Swarm running under the vsched scheduler.

   A trace: [id, n, ops : Seq([k, fail, hasargs, argd]), ev : Seq(event)].  Events
     [e |-> "op", o]                         the caller starts API call number o (= T.ops[o])
     [e |-> "call", o, m, a]                 the action given to call o was invoked with the
                                             connection of member m (0: no member's) and args a
     [e |-> "end", o, m, r, x]               that invocation returned / raised error x
     [e |-> "open" | "opened" | "close", o, m, r, x]   instrumented member methods
     [e |-> "ret", o, r, chain]              call o came back to the caller
     [e |-> "step", t, proj]                 one scheduler step of thread t (0 caller, i member i)
                                             is over; proj = projection of the real objects

   monitor (the verdict): all events except "step" rebuild the op records of SwarmProps;
            RetClause is evaluated at every "ret", FinalClause for every call at the end.
   conform (the binding): every "step" must be one action of Swarm.tla by that thread whose
            post-state has the recorded projection and the same event history.  *)
EXTENDS Naturals, Sequences, FiniteSets, TLC, Json, IOUtils

Traces == JsonDeserialize(IOEnv.TRACE_FILE)

CONSTANT MaxN
VARIABLES tid, l,
          mops, bad, badAt,                 \* monitor
          conf, confAt,                     \* conformance verdict
          n, isOpen, hopen, left, opn, cur, upc, ui, mpc, rep, fail, pchain   \* design spec

T == Traces[tid]
NOps == 0
Kinds == {"seq", "par", "psafe", "open", "close"}
ArgDicts == {<<>>}
Bug == "none"

D == INSTANCE Swarm
P == INSTANCE SwarmProps

specvars == <<n, isOpen, hopen, left, opn, cur, upc, ui, mpc, rep, fail, pchain>>
monvars == <<mops, bad, badAt>>
Ev == T.ev[l]
ToSet(s) == {s[i] : i \in DOMAIN s}

Init == /\ tid \in 1..Len(Traces)
        /\ l = 1
        /\ mops = <<>> /\ bad = "ok" /\ badAt = 0
        /\ conf = TRUE /\ confAt = 0
        /\ n = Traces[tid].n
        /\ isOpen = FALSE /\ hopen = FALSE
        /\ left = Len(Traces[tid].ops) /\ opn = 0
        /\ cur = D!NoOp
        /\ upc = "boundary" /\ ui = 0
        /\ mpc = D!NoThreads /\ rep = D!EmptyRep /\ fail = {} /\ pchain = {}

Fail(c) == IF bad = "ok" /\ c # "ok" THEN bad' = c /\ badAt' = l ELSE UNCHANGED <<bad, badAt>>

\* ---- monitor
MOpen == LET F[i \in 0..Len(mops)] == IF i = 0 THEN FALSE ELSE P!OpenNext(F[i - 1], mops[i])
         IN F[Len(mops)]

MOp == /\ Ev.e = "op"
       /\ LET o == Len(mops) + 1 IN
          IF Ev.o = o /\ o <= Len(T.ops)
          THEN /\ mops' = Append(mops, [kind |-> T.ops[o].k, n |-> T.n, hasargs |-> T.ops[o].hasargs,
                                        argd |-> T.ops[o].argd, wasOpen |-> MOpen, h |-> <<>>,
                                        returned |-> FALSE, retAt |-> 0, r |-> "", chain |-> {}])
               /\ UNCHANGED <<bad, badAt>>
          ELSE /\ Fail("MalformedTrace") /\ UNCHANGED mops
       /\ UNCHANGED <<conf, confAt, specvars>>

MHist == /\ Ev.e \in {"call", "end", "open", "opened", "close"}
         /\ IF Ev.o \in DOMAIN mops
            THEN /\ mops' = [mops EXCEPT ![Ev.o].h = Append(@, D!Evt(Ev.e, Ev.m, Ev.a, Ev.r, Ev.x))]
                 /\ UNCHANGED <<bad, badAt>>
            ELSE /\ Fail("MalformedTrace") /\ UNCHANGED mops
         /\ UNCHANGED <<conf, confAt, specvars>>

MRet == /\ Ev.e = "ret"
        /\ IF Ev.o \in DOMAIN mops /\ ~mops[Ev.o].returned
           THEN /\ LET m == mops[Ev.o] IN
                   mops' = [mops EXCEPT ![Ev.o] = [m EXCEPT !.returned = TRUE, !.retAt = Len(m.h),
                                                            !.r = Ev.r, !.chain = ToSet(Ev.chain)]]
                /\ Fail(P!RetClause(mops'[Ev.o]))
           ELSE /\ Fail("MalformedTrace") /\ UNCHANGED mops
        /\ UNCHANGED <<conf, confAt, specvars>>

\* ---- conformance
Conform(A) == IF conf /\ ENABLED A
              THEN A /\ UNCHANGED <<conf, confAt>>
              ELSE /\ conf' = FALSE /\ confAt' = (IF conf THEN l ELSE confAt)
                   /\ UNCHANGED specvars

UserStep ==
    IF upc = "boundary"
    THEN /\ opn < Len(T.ops)
         /\ LET q == T.ops[opn + 1] IN D!BeginOp(q.k, ToSet(q.fail), q.hasargs, q.argd)
    ELSE \/ D!RepInit1 \/ D!RepInit2 \/ D!ReadFlag \/ D!ReadErrs
         \/ D!Start(ui) \/ D!Join(ui) \/ D!Close(ui) \/ D!SeqEnd(ui)

Matches(pr) ==
    /\ isOpen' = pr.isOpen
    /\ rep'.flag = pr.flag /\ rep'.errs = pr.errs
    /\ {i \in 1..MaxN : mpc'[i] # "none"} = ToSet(pr.started)
    /\ {i \in 1..MaxN : mpc'[i] = "done"} = ToSet(pr.fin)
    /\ opn' \in DOMAIN mops
    /\ LET m == mops[opn'] IN
       /\ cur'.h = m.h /\ cur'.returned = m.returned /\ cur'.wasOpen = m.wasOpen
       /\ m.returned => cur'.r = m.r /\ cur'.chain = m.chain /\ cur'.retAt = m.retAt
    /\ (upc' = "finished") = pr.userdone

MStep == /\ Ev.e = "step"
         /\ UNCHANGED monvars
         /\ Conform(/\ IF Ev.t = 0 THEN UserStep
                       ELSE Ev.t \in 1..MaxN /\ D!MemberNext(Ev.t)
                    /\ Matches(Ev.proj))

Step == /\ l <= Len(T.ev)
        /\ l' = l + 1 /\ UNCHANGED tid
        /\ (MOp \/ MHist \/ MRet \/ MStep)

FirstFinal == LET F[i \in 1..(Len(mops) + 1)] ==
                    IF i > Len(mops) THEN "ok"
                    ELSE IF P!FinalClause(mops[i]) # "ok" THEN P!FinalClause(mops[i]) ELSE F[i + 1]
              IN F[1]

Finish == /\ l = Len(T.ev) + 1
          /\ l' = l + 1
          /\ LET b == IF bad # "ok" THEN bad
                      ELSE IF Len(mops) # Len(T.ops) THEN "Returns"
                      ELSE FirstFinal
                 at == IF bad # "ok" THEN badAt ELSE l
             IN PrintT(<<"VERDICT", T.id, b, at, conf, confAt>>)
          /\ UNCHANGED <<tid, monvars, conf, confAt, specvars>>

Next == Step \/ Finish
Spec == Init /\ [][Next]_<<tid, l, monvars, conf, confAt, specvars>>
=============================================================================
