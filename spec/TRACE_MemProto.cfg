SPECIFICATION Spec
CONSTANTS
  RC = 20
  WC = 25
CHECK_DEADLOCK FALSE
