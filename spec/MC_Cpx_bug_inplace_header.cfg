SPECIFICATION Spec
CONSTANTS
  Packets <- NoPackets
  MaxPackets = 0
  NR = 0
  RFns <- RFnsTcp
  SendSets <- Send1Tcp
  MaxSends = 2
  Mode = "tcp"
  LateRegister = FALSE
  Bug = "inplace_header"
INVARIANT TypeOK
INVARIANT CodecOK
INVARIANT ReadsOK
INVARIANT RouteOK
INVARIANT DownOK
INVARIANT UpOK
CHECK_DEADLOCK FALSE
