---- MODULE MC_TocFetch ----
EXTENDS TocFetch

PCodes == <<8, 9, 10, 11, 0, 1, 2, 3, 5, 6, 7>>
\* a device table with n entries: 3 groups in rotation (so that the dict iteration order differs
\* from the index order), unique two-letter names, every type code, read-only / extended bits,
\* and extended types 1 (persistent) and 0
Entry(kind, k) ==
    LET i == k - 1 IN
    [group |-> <<65 + (i % 3)>>,
     name  |-> <<97 + (i % 26), 97 + (i \div 26)>>,
     type  |-> IF kind = "log" THEN 1 + (i % 8)
               ELSE PCodes[1 + (i % 11)] + 64 * (i % 2) + 16 * (IF i % 3 = 0 THEN 1 ELSE 0),
     xt    |-> IF i % 2 = 0 THEN 1 ELSE 0]
DevTab(kind, n) == [k \in 1..n |-> Entry(kind, k)]

\* the checksum is chosen so that the bytes of an INFO reply parse as an element (log: first
\* byte a type code 1..8; param: type nibble known and a NUL among the following bytes) -- a
\* duplicated INFO reply must still not be taken for one
Cfg(kind, ver, n, cached, resend) ==
    [kind |-> kind, ver |-> ver, dev |-> DevTab(kind, n), crc |-> <<3, 66, 0, 67>>, cached |-> cached, resend |-> resend]
\* cache states: absent, written by this release, written by a release without 'extended'
\* (for the log table such a file does not differ from "own")
CS(kind) == IF kind = "param" THEN {"none", "own", "old"} ELSE {"none", "own"}

\* sizes 0..3, both kinds, both protocol generations, cache states, with and without retry
ConfigsSmall == {Cfg(k, v, n, c, r) : k \in {"log", "param"}, v \in {1, 2}, n \in 0..3,
                                      c \in {"none", "own", "old"}, r \in BOOLEAN}
ConfigsQuick == UNION {{Cfg(k, v, n, c, TRUE) : v \in {1, 2}, n \in 0..3, c \in CS(k)} : k \in {"log", "param"}}
\* the 8-bit boundary (V1 tables end at 255 entries)
ConfigsBoundary == {Cfg(k, 2, n, "none", TRUE) : k \in {"log", "param"}, n \in {254, 255, 256, 257, 258, 300}}
                   \cup {Cfg(k, 1, n, "none", TRUE) : k \in {"log", "param"}, n \in {254, 255}}
ConfigsBoundaryQuick == {Cfg("param", 2, 257, "none", TRUE)}
\* for the bug configurations
ConfigsBugSmall == {Cfg(k, v, n, "none", TRUE) : k \in {"log", "param"}, v \in {1, 2}, n \in 1..3}
ConfigsBugLog == {Cfg("log", v, n, "none", TRUE) : v \in {1, 2}, n \in 0..3}
ConfigsBugCache == {Cfg("param", v, n, c, TRUE) : v \in {1, 2}, n \in 1..3, c \in {"own", "old"}}
ConfigsBug257 == {Cfg("log", 2, 257, "none", TRUE)}
\* simulation (spec -> code): small and medium tables
ConfigsSim == UNION {{Cfg(k, v, n, c, TRUE) : v \in {1, 2}, n \in {0, 1, 2, 3, 4, 7}, c \in CS(k)} : k \in {"log", "param"}}
WindowAll == 0..65535
WindowBoundary == {0, 1, 253, 254, 255, 256, 257, 299}
\* the graph that is dumped and toured in the thorough tier (retry on; the retry-off half is checked by ConfigsSmall / ConfigsSmall4)
ConfigsTour == UNION {{Cfg(k, v, n, c, TRUE) : v \in {1, 2}, n \in 0..3, c \in CS(k)} : k \in {"log", "param"}}
ConfigsSmall4 == UNION {{Cfg(k, v, n, c, r) : v \in {1, 2}, n \in 0..4, c \in CS(k), r \in BOOLEAN} : k \in {"log", "param"}}
====
