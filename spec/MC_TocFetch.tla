---- MODULE MC_TocFetch ----
EXTENDS TocFetch

PCodes == <<8, 9, 10, 11, 0, 1, 2, 3, 5, 6, 7>>
\* a device table with n entries: 3 groups in rotation (so that the dict iteration order differs
\* from the index order), unique two-letter names, every type code, read-only / extended bits,
\* and extended types 1 (persistent) and 0
Entry(kind, k) ==
    LET i == k - 1 IN
    [group |-> <<65 + (i % 3)>>,
     name  |-> <<97 + (i % 26), 97 + (i \div 26)>>,
     type  |-> IF kind = "log" THEN 1 + (i % 8)
               ELSE PCodes[1 + (i % 11)] + 64 * (i % 2) + 16 * (IF i % 3 = 0 THEN 1 ELSE 0),
     xt    |-> IF i % 2 = 0 THEN 1 ELSE 0]
DevTab(kind, n) == [k \in 1..n |-> Entry(kind, k)]

Cfg(kind, ver, n, cached, resend) ==
    [kind |-> kind, ver |-> ver, dev |-> DevTab(kind, n), crc |-> <<17, 34, 51, 68>>, cached |-> cached, resend |-> resend]

\* sizes 0..3, both kinds, both protocol generations, cache hit and miss, with and without retry
ConfigsSmall == {Cfg(k, v, n, c, r) : k \in {"log", "param"}, v \in {1, 2}, n \in 0..3,
                                      c \in BOOLEAN, r \in BOOLEAN}
ConfigsQuick == {Cfg(k, v, n, c, TRUE) : k \in {"log", "param"}, v \in {1, 2}, n \in 0..3, c \in BOOLEAN}
\* the 8-bit boundary (V1 tables end at 255 entries)
ConfigsBoundary == {Cfg(k, 2, n, FALSE, TRUE) : k \in {"log", "param"}, n \in {254, 255, 256, 257, 258, 300}}
                   \cup {Cfg(k, 1, n, FALSE, TRUE) : k \in {"log", "param"}, n \in {254, 255}}
ConfigsBoundaryQuick == {Cfg("param", 2, 257, FALSE, TRUE)}
\* for the bug configurations
ConfigsBugSmall == {Cfg(k, v, n, FALSE, TRUE) : k \in {"log", "param"}, v \in {1, 2}, n \in 1..3}
ConfigsBug257 == {Cfg("log", 2, 257, FALSE, TRUE)}
\* simulation (spec -> code): small and medium tables
ConfigsSim == {Cfg(k, v, n, c, TRUE) : k \in {"log", "param"}, v \in {1, 2}, n \in {0, 1, 2, 3, 4, 7}, c \in BOOLEAN}
WindowAll == 0..65535
WindowBoundary == {0, 1, 253, 254, 255, 256, 257, 299}
ConfigsSmall4 == {Cfg(k, v, n, c, r) : k \in {"log", "param"}, v \in {1, 2}, n \in 0..4, c \in BOOLEAN, r \in BOOLEAN}
====
