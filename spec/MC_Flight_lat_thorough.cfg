SPECIFICATION Spec
CONSTANTS
  Helper = "MC"
  Mode = "with"
  Prims <- McTimed
  MaxLen = 2
  DH = 300
  DV = 500
  DL = 0
  Period = 200
  X0 = 0
  Y0 = 0
  Z0 = 0
  Lats <- Lat3
  MaxLat = 2
  Bug = "none"
INVARIANT NoViolation
INVARIANT Ended
INVARIANT PosTracks
INVARIANT TypeOK
CHECK_DEADLOCK FALSE
