SPECIFICATION Spec
CONSTANTS
  NC = 1
  TocC <- TocShort
  VarAlpha <- AlphaEvolve
  BasicAlpha <- BasicOne
  MaxFree = 2
  MaxBasic = 1
  MaxUniform = 1
  Periods = {100}
  Statuses = {}
  MaxOps = 5
  MaxFaults = 0
  MaxData = 2
  MaxLate = 1
  TocAlts <- TocLonger
  IdMod = 255
  Bugs <- NoBugs
  WithSync = FALSE
INVARIANT ObsOK
INVARIANT TypeOK
CHECK_DEADLOCK FALSE
