SPECIFICATION Spec
CONSTANTS
  Helper = "MC"
  Mode = "with"
  Prims <- McQuick
  MaxLen = 4
  DH = 300
  DV = 500
  DL = 0
  Period = 200
  X0 = 0
  Y0 = 0
  Z0 = 0
  Lats = {}
  MaxLat = 0
  Bug = "none"
INVARIANT NoViolation
INVARIANT Ended
INVARIANT PosTracks
INVARIANT TypeOK
CHECK_DEADLOCK FALSE
