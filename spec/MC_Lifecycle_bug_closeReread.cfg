SPECIFICATION Spec
CONSTANTS
  P = 2
  NPar = 1
  ErFrom = 2
  LogStart = 0
  LogEnd = 0
  ParStart = 1
  NAtt = 2
  MaxFaults = 0
  FaultBy <- LinkFaults
  MaxPings = 1
  UseSync = FALSE
  Closer = TRUE
  Defects <- Bug_closeReread
INVARIANT CloseCallsOK
CHECK_DEADLOCK FALSE
