SPECIFICATION Spec
CONSTANTS
  Cfg0 <- CfgA
  Users = {1, 2}
  Ops <- OpsDup
  MaxOps = 3
  Notifs <- NotifsA
  MaxNotif = 1
  MaxDup = 1
  DistinctPatterns = TRUE
  Bug = "none"
  OneQueryPerCmd = FALSE
INVARIANT TypeOK
INVARIANT CallsOK
INVARIANT WireOK
INVARIANT RxOK
INVARIANT GetOK
INVARIANT FinalOK
INVARIANT EndOK
INVARIANT NoWedge
CHECK_DEADLOCK FALSE
