------------------------------ MODULE ParamFileTrace ------------------------------
(* Trace spec for X02 / ParamFileHelper.  One TLC run judges a batch of traces recorded from the
   real ParamFileHelper + Param + _ParamUpdater + dispatcher running against the simulated device.

   Trace object  [id, nature, status, dval0, ev, blocked, linkup]; events are records with the
   fields e, n, k, p, q, dv, st, ok, res, f (see ParamFileProps; unused fields 0 / "" / <<>>):
     call issue tx rx cb down ret      observables of the property (monitor)
     wake arrive lost dup updclose     library / environment steps needed by the binding only

   monitor (the verdict): mmon/mbad are rebuilt from the events with ParamFileProps!Apply and
            ParamFileProps!EventClause, the end-of-trace clause uses the scheduler's report
            (blocked, linkup).  Nothing of the design spec is assumed.
   conform (the binding): the same event must be the observable `obs` of an enabled action of
            ParamFile (WaitMode: "forever" = the code as found).  conf = FALSE from the first
            event the design spec cannot produce.                                          *)
EXTENDS Naturals, Integers, Sequences, FiniteSets, TLC, Json, IOUtils

CONSTANT WaitMode

Traces == JsonDeserialize(IOEnv.TRACE_FILE)

VARIABLES tid, l,
          mmon, mbad, mbadAt,             \* monitor
          conf, confAt,                   \* conformance verdict
          nature, status, pc, rres, file, i, success, sema, ncalls, queue, inflight, nissue, lasttx, pendcb, link, chan, inq,
          dval, dstored, ndrop, ndup, nearly, obs, mon, bad      \* design-spec variables

T == Traces[tid]
Ev == T.ev[l]

\* constants of the design spec that its actions (other than Init/Setup/Next) do not need
NP == 0
Vals == {}
NoValue == FALSE
Natures == {}
Statuses == {}
MaxFile == 0
NCalls == 1000000
Resend == TRUE
MaxDrop == 1000000
MaxDup == 1000000
MaxEarly == 1000000
LinkLoss == TRUE
Bug == "none"

D == INSTANCE ParamFile
P == INSTANCE ParamFileProps

specvars == <<nature, status, pc, rres, file, i, success, sema, ncalls, queue, inflight, nissue, lasttx, pendcb, link, chan, inq,
              dval, dstored, ndrop, ndup, nearly, obs, mon, bad>>

Init == /\ tid \in 1..Len(Traces)
        /\ l = 1
        /\ mmon = P!M0(Traces[tid].nature) /\ mbad = "ok" /\ mbadAt = 0
        /\ conf = TRUE /\ confAt = 0
        /\ nature = Traces[tid].nature /\ status = Traces[tid].status
        /\ pc = "config" /\ rres = "" /\ file = <<>> /\ i = 0 /\ success = FALSE /\ sema = FALSE /\ ncalls = 0
        /\ queue = <<>> /\ inflight = D!NoReq /\ nissue = 0 /\ lasttx = D!NoReq /\ pendcb = D!NoCb
        /\ link = "up" /\ chan = <<>> /\ inq = <<>>
        /\ dval = Traces[tid].dval0 /\ dstored = [p \in DOMAIN Traces[tid].dval0 |-> -1]
        /\ ndrop = 0 /\ ndup = 0 /\ nearly = 0
        /\ obs = D!E0 /\ mon = P!M0(Traces[tid].nature) /\ bad = "ok"

Conform(A) == IF conf /\ ENABLED A
              THEN A /\ UNCHANGED <<conf, confAt>>
              ELSE /\ conf' = FALSE /\ confAt' = (IF conf THEN l ELSE confAt)
                   /\ UNCHANGED specvars

Step == /\ l <= Len(T.ev)
        /\ l' = l + 1 /\ UNCHANGED tid
        /\ mmon' = P!Apply(mmon, Ev)
        /\ LET c == P!EventClause(mmon, Ev) IN
           IF mbad = "ok" /\ c # "ok" THEN mbad' = c /\ mbadAt' = l ELSE UNCHANGED <<mbad, mbadAt>>
        /\ IF Ev.e = "call" THEN Conform(D!Begin(Ev.f) /\ obs' = Ev)
           ELSE Conform(D!NextNoConfig /\ obs' = Ev)

Finish == /\ l = Len(T.ev) + 1
          /\ l' = l + 1
          /\ LET b == IF mbad # "ok" THEN mbad ELSE P!EndClause(mmon, T.blocked, T.linkup)
                 at == IF mbad # "ok" THEN mbadAt ELSE IF b # "ok" THEN l ELSE 0
             IN PrintT(<<"VERDICT", T.id, b, at, conf, confAt>>)
          /\ UNCHANGED <<tid, mmon, mbad, mbadAt, conf, confAt, specvars>>

Next == Step \/ Finish
Spec == Init /\ [][Next]_<<tid, l, mmon, mbad, mbadAt, conf, confAt, specvars>>
=============================================================================
