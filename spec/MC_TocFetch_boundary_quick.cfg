SPECIFICATION Spec
CONSTANTS
  Configs <- ConfigsBoundaryQuick
  Budget = 1
  Window <- WindowBoundary
  Bug = "none"
INVARIANT TableAtDone
INVARIANT TableStaysOK
INVARIANT LookupsOK
INVARIANT Progress
INVARIANT OnePattern
INVARIANT TypeOK
CHECK_DEADLOCK FALSE
