SPECIFICATION Spec
CONSTANTS
  NP = 2
  Vals <- ValsQuick
  NoValue = TRUE
  Natures <- NaturesAll
  Statuses <- StatusesQuick
  MaxFile = 2
  NCalls = 2
  Resend = TRUE
  MaxDrop = 1
  MaxDup = 1
  MaxEarly = 1
  LinkLoss = FALSE
  WaitMode = "forever"
  Bug = "none"
VIEW view
CHECK_DEADLOCK FALSE
INVARIANT TypeOK
INVARIANT PropsOK
INVARIANT StoredOnTrue
INVARIANT NoHang
