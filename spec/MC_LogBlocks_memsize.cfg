SPECIFICATION Spec
CONSTANTS
  NC = 1
  TocC <- TocMC
  VarAlpha <- MemSizes
  BasicAlpha <- MemSizes
  MaxFree = 0
  MaxBasic = 1
  MaxUniform = 27
  Periods = {100}
  Statuses = {}
  MaxOps = 2
  MaxFaults = 0
  MaxData = 1
  MaxLate = 0
  TocAlts = {}
  IdMod = 255
  Bugs <- NoBugs
  WithSync = FALSE
INVARIANT ObsOK
INVARIANT TypeOK
CHECK_DEADLOCK FALSE
