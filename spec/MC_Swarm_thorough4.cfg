SPECIFICATION Spec
CONSTANTS
  MaxN = 4
  NOps = 1
  Kinds <- KindsNoPar
  ArgDicts <- ArgDictsOne
  Bug = "none"
INVARIANT RetOK
INVARIANT FinalOK
INVARIANT QuietAtBoundary
INVARIANT OpenFlagMeans
INVARIANT OpenSucceeds
INVARIANT TypeOK
CHECK_DEADLOCK FALSE
