SPECIFICATION Spec
CONSTANTS
  Bug = "none"
  EnvSet <- EnvQuick
  Ops <- AllOps
  Schemes <- AllSchemes
  Dongles <- DonglesQuick
  Chans = {0, 80, 125}
  Rates = {"250K", "1M", "2M"}
  AddrSet <- AddrQuick
  RateLimits <- RlQuick
  ScanAddrs <- ScanAddrsQuick
  RespSets <- RespQuick
  NOps = 1
INVARIANT ParseOK
INVARIANT ClaimOK
INVARIANT LookupOK
INVARIANT OpenOK
INVARIANT ScanOK
INVARIANT ScanComplete
INVARIANT BigStepAgrees
INVARIANT TypeOK
CHECK_DEADLOCK FALSE
