------------------------------- MODULE Lifecycle -------------------------------
(* Design spec for C02: connection lifecycle of cflib.crazyflie.Crazyflie with the SyncCrazyflie
   wrapper on top (section "SyncCf" below), all threads of the library, the link driver's error
   reports and the user.

   SHAPE.  Every thread is a stack of frames [r, pc, a, b]; pc names the NEXT VISIBLE OPERATION of
   the thread, i.e. the next yield point of the real code under the virtual scheduler that the
   harness logs: reads/writes of Crazyflie.link and Crazyflie.state (rl wl rs ws), _send_lock
   (acq rel), the driver's in_queue (recv), _ParamUpdater.request_queue / wait_lock (qget wacq
   wrel), Thread.join (join), thread begin, sleep, SyncCrazyflie's events (swait sset).  One step =
   the thread is granted that operation and runs on until it parks at its next visible operation
   (everything in between -- callbacks, invisible queue/lock operations -- is part of the step).
   The routines follow the code line by line (measured op sequences, reports/C02.md):
     send      send_packet:  acq rl [rl if expected_reply] rl rel
     lerr      _link_error_cb: rs rl rl wl rs rs.. (fan-out) ws
     fan       disconnected.call: Param._disconnected (qget.. wrel), LinkStatistics.stop (join),
               application callbacks, SyncCrazyflie._disconnected (sset)
     open      open_link: ws wl rl (send) | exception path rl rl wl
     close     close_link: rl (send) rl rl wl (fan) ws
     disp      _IncomingPacketHandler.run: rl rl recv [ws] handler
     upd       _ParamUpdater.run: qget wacq rl (send)
     ping      Latency._ping_thread: begin (send) sleep ...
     sopen / sclose   SyncCrazyflie.open_link / close_link: ... swait

   Defects = the set of AS-IS behaviours of the code that are switched on; {} is the repaired
   design.  Each name is one code site:
     "syncOpenNoWake"  SyncCrazyflie._disconnected does not wake a pending open_link
     "stopJoins"       Latency.stop joins the ping thread (from the disconnected callback)
     "pingSelfJoin"    ... even when the caller IS the ping thread (only with "stopJoins")
     "sendNoFinally"   send_packet does not release _send_lock when an exception passes through
     "sendReread"      send_packet tests self.link and then reads it again to use it
     "dispReread"      the dispatcher tests self.cf.link and then reads it again to use it
     "closeReread"     close_link tests self.link and reads it again for .close()
     "errReread"       _link_error_cb tests self.link and reads it again for .close()
     "updDoubleRelease" _ParamUpdater.run releases wait_lock although _ParamUpdater.close() (disconnected) may have
                       force-released it in between: RuntimeError, the updater thread dies
     "dispStalePk"     the dispatcher handles a packet it took from a driver object that has been replaced meanwhile
     "staleFetcher"    a TocFetcher of a failed attempt stays registered and takes part in the next attempt (connected
                       twice).  Off = the fetcher remembers cf.link at start() and every callback first reads cf.link
                       (one more visible read): not its link -> it unregisters itself and returns
     "openReread"      open_link stores the driver in self.link and reads self.link again to test it
     "errInSender"     a link error reported synchronously from link.send_packet is handled at once in the sending
                       thread, i.e. under _send_lock (fan-out, join of the ping thread included).  Off = it is
                       remembered and handled by the same thread right after send_packet released the lock
     "errStateRace"    _link_error_cb / _check_for_initial_packet_cb read-modify state without mutual exclusion
                       and open_link/close_link do not wait for a running error report                 *)
EXTENDS Naturals, Sequences, FiniteSets, TLC

CONSTANTS P,          \* request/reply rounds driven by the dispatcher chain; reply P completes the tables
          NPar,       \* parameter values fetched through the updater thread (rounds P+1..P+NPar)
          ErFrom,     \* rounds >= ErFrom are sent with expected_reply (one more read of link)
          LogStart, LogEnd,  \* the reply of round LogStart starts the log TocFetcher, which handles the replies of rounds
                             \* LogStart+1..LogEnd (0, 0 = no log table in this configuration)
          ParStart,   \* the reply of round ParStart starts the parameter TocFetcher (replies ParStart+1..P)
          NAtt,       \* attempts 1..NAtt-1 by the user, attempt NAtt = fault-free epilogue
          MaxFaults,  \* link faults (incl. connect failures) per behaviour
          FaultBy,    \* subset of {"sender", "driver", "cf1", "cf2"}
          MaxPings,
          UseSync,    \* the user goes through SyncCrazyflie
          Closer,     \* a second user thread may call Crazyflie.close_link at any time
          Defects

Pr == INSTANCE LifecycleProps

PING == 100
SETP == 101
Users == {"user", "closer", "epi"}
ErrOf(n) == IF n = 1 THEN "err1" ELSE IF n = 2 THEN "err2" ELSE "err3"
Errs == {"err1", "err2", "err3"}
Threads == Users \cup {"disp", "upd", "ping"} \cup Errs
Has(d) == d \in Defects

VARIABLES g,       \* shared state of the library, the wrapper, the device and the environment budgets
          stk,     \* thread -> stack of frames
          words, act, nstim, viol,   \* history (observables of LifecycleProps) and the first failing clause
          vwhen    \* "T" / "R": had an open_link of attempt >= 2 begun when that clause failed? ("" while viol = "ok")

vars == <<g, stk, words, act, nstim, viol, vwhen>>

F(r, pc, a, b) == [r |-> r, pc |-> pc, a |-> a, b |-> b]
Top(s) == s[Len(s)]
Pop(s) == SubSeq(s, 1, Len(s) - 1)
Goto(s, pc) == [s EXCEPT ![Len(s)].pc = pc]
SetTop(s, f) == [s EXCEPT ![Len(s)] = f]
Alive(t) == stk[t] # <<>> /\ t \notin g.dead

\* history items produced by a step, applied in order
HBeg(kind, att) == [k |-> "beg", kind |-> kind, att |-> att, name |-> "", tocs |-> 0, vals |-> 0]
HEnd(kind)      == [k |-> "end", kind |-> kind, att |-> 0, name |-> "", tocs |-> 0, vals |-> 0]
HCb(name, att, tocs, vals) == [k |-> "cb", kind |-> "", att |-> att, name |-> name, tocs |-> tocs, vals |-> vals]

\* result of (part of) a step: new shared state, new stack of the acting thread, history items,
\* threads to start
R(gg, s, h, sp) == [g |-> gg, s |-> s, h |-> h, sp |-> sp]

Init ==
    /\ g = [state |-> "DISC", link |-> 0, uri |-> 0, att |-> 0, closed |-> {},
            inq |-> [n \in 1..NAtt |-> <<>>], lock |-> "free", initCb |-> TRUE, expect |-> 0,
            reqQ |-> <<>>, waitLock |-> FALSE, lockPat |-> 0, nvals |-> 0, isUpd |-> FALSE, tocOK |-> FALSE,
            staleLog |-> 0, stalePar |-> 0, fLog |-> 0, fPar |-> 0, pingInst |-> FALSE, stopEvt |-> FALSE,
            sOpen |-> FALSE, sCbs |-> FALSE, sConn |-> "none", sDisc |-> "none",
            nfault |-> 0, faulted |-> {}, pings |-> 0, dead |-> {}, dispStarted |-> FALSE,
            next |-> 1, over |-> {}, uclosed |-> {}, cclosed |-> {}, sret |-> 0, epi |-> FALSE]
    /\ stk = [t \in Threads |-> IF t = "upd" THEN <<F("upd", "u_begin", 0, 0)>> ELSE <<>>]
    /\ words = [a \in 0..NAtt |-> <<>>]
    /\ act = <<>>
    /\ nstim = [a \in 0..NAtt |-> [close |-> 0, fail |-> 0]]
    /\ viol = "ok"
    /\ vwhen = ""

\* ----------------------------------------------------------------------------------------------
\* fan-outs of the public callbacks (the parts that have visible operations)
\* ----------------------------------------------------------------------------------------------
\* connection_failed.call(att): application observers, then SyncCrazyflie._connection_failed
Failed(r, att) ==
    LET g1 == [r.g EXCEPT !.over = @ \cup {att}, !.sOpen = IF r.g.sCbs THEN FALSE ELSE @]
        h1 == Append(r.h, HCb("failed", att, 0, 0))
    IN IF r.g.sCbs /\ r.g.sConn # "none"
       THEN R(g1, Append(r.s, F("evt", "x_sset", 1, 0)), h1, r.sp)
       ELSE R(g1, r.s, h1, r.sp)

\* the tail of disconnected.call after LinkStatistics.stop: observers, SyncCrazyflie._disconnected.
\* r.s has the fan frame on top.
FanDeliver(r) ==
    LET u  == IF Top(r.s).b # 0 THEN Top(r.s).b ELSE r.g.uri
        h1 == Append(r.h, HCb("disconnected", u, 0, 0))
        g1 == [r.g EXCEPT !.over = @ \cup {u}, !.sCbs = FALSE, !.sOpen = IF r.g.sCbs THEN FALSE ELSE @]
        wakeOpen == r.g.sCbs /\ r.g.sConn # "none" /\ ~Has("syncOpenNoWake")
        wakeClose == r.g.sCbs /\ r.g.sDisc # "none"
    IN IF wakeClose THEN R(g1, SetTop(r.s, F("fan", "f_sset_d", Top(r.s).a, Top(r.s).b)), h1, r.sp)
       ELSE IF wakeOpen THEN R(g1, Goto(r.s, "f_sset_c"), h1, r.sp)
       ELSE R(g1, Goto(r.s, "f_done"), h1, r.sp)

\* ----------------------------------------------------------------------------------------------
\* silent continuations: run on until the thread parks at a visible operation
\* ----------------------------------------------------------------------------------------------
RECURSIVE Settle(_)
Settle(r) ==
    IF r.s = <<>> THEN r
    ELSE LET f == Top(r.s) IN
         CASE f.pc = "o_ret"  -> Settle(R(r.g, Pop(r.s), Append(r.h, HEnd("open")), r.sp))
           [] f.pc = "f_done" -> \* disconnected.call returns; a = 1: connection_lost.call follows
                 Settle(R(r.g, Pop(r.s),
                          IF f.a = 1 THEN Append(r.h, HCb("lost", IF f.b # 0 THEN f.b ELSE r.g.uri, 0, 0)) ELSE r.h, r.sp))
           [] f.pc = "e_done" -> Settle(R(r.g, Pop(r.s), Append(r.h, HEnd("lerr")), r.sp))
           [] f.pc = "c_done" -> Settle(R(r.g, Pop(r.s), Append(r.h, HEnd("close")), r.sp))
           [] f.pc = "x_done" -> Settle(R(r.g, Pop(r.s), r.h, r.sp))
           [] OTHER -> r

\* an exception propagates out of the top frame
RECURSIVE Unwind(_, _)
Unwind(t, r) ==
    IF r.s = <<>>
    THEN IF t \in Users THEN r                               \* the harness' user thread catches it
         ELSE R([r.g EXCEPT !.dead = @ \cup {t}], <<>>, r.h, r.sp)   \* thread dies
    ELSE LET f == Top(r.s) IN
         CASE f.r = "send" ->
                 Unwind(t, R(IF ~Has("sendNoFinally") /\ r.g.lock = t THEN [r.g EXCEPT !.lock = "free"] ELSE r.g,
                             Pop(r.s), r.h, r.sp))
           [] f.r = "open" /\ f.pc = "o_ret" -> R(r.g, Goto(r.s, "o_x_rl"), r.h, r.sp)    \* try/except in open_link
           [] f.r = "disp" /\ f.b = 1 -> R(r.g, SetTop(r.s, F("disp", "d_rl1", 0, 0)), r.h, r.sp)  \* try/except around port callbacks
           [] f.r \in {"open", "close", "lerr"} -> Unwind(t, R(r.g, Pop(r.s), Append(r.h, HEnd(f.r)), r.sp))
           [] OTHER -> Unwind(t, R(r.g, Pop(r.s), r.h, r.sp))
Raise(t, r) == Unwind(t, r)

\* ----------------------------------------------------------------------------------------------
\* routines.  Each XxxStep(t, f, ch) is defined for the pcs of its routine and returns R(...)
\* (before Settle); XxxEn is its enabling condition.  ch is the environment's choice.
\* ----------------------------------------------------------------------------------------------
S0(t) == R(g, stk[t], <<>>, {})
CanFault(L) == L < NAtt /\ L \notin g.faulted /\ g.nfault < MaxFaults

\* --- send_packet:  f.a = request id, f.b = 1 iff expected_reply given --------------------------
FaultEn(ch) == \/ ch = "-"
               \/ ch \in {"sender", "driver"} \cap FaultBy /\ g.link # 0 /\ g.link \notin g.closed /\ CanFault(g.link)
SendEn(t, f, ch) ==
    CASE f.pc = "s_acq" -> ch = "-" /\ g.lock = "free"
      [] f.pc = "s_use" -> FaultEn(ch)
      [] f.pc = "s_test" -> IF Has("sendReread") THEN ch = "-" ELSE FaultEn(ch)
      [] OTHER -> ch = "-"
\* the packet is handed to driver object L (the device answers synchronously; faults are decided here)
UseEffect(t, r, L, req, ch) ==
    IF L \in g.closed THEN R(g, Goto(r.s, "s_rel"), <<>>, {})      \* driver object already closed: dropped
    ELSE IF ch = "sender"
         THEN IF Has("errInSender")
              THEN R([g EXCEPT !.nfault = @ + 1, !.faulted = @ \cup {L}],
                     Append(Goto(r.s, "s_rel"), F("lerr", "e_rs0", L, 0)), <<HBeg("lerr", L)>>, {})
              ELSE \* the report is only remembered (_sender_errors) -- after reading state for the log message -- and
                   \* handled by this thread as soon as send_packet has released _send_lock (frame.a = 1000 + L)
                   R([g EXCEPT !.nfault = @ + 1, !.faulted = @ \cup {L}],
                     Append(SetTop(r.s, F("send", "s_rel", 1000 + L, Top(r.s).b)), F("evt", "x_rs", 0, 0)), <<>>, {})
    ELSE LET g1 == [g EXCEPT !.inq[L] = IF req = SETP THEN @ ELSE Append(@, req)] IN
         IF ch = "driver"
         THEN R([g1 EXCEPT !.nfault = @ + 1, !.faulted = @ \cup {L}], Goto(r.s, "s_rel"), <<>>, {ErrOf(L)})
         ELSE R(g1, Goto(r.s, "s_rel"), <<>>, {})
SendStep(t, f, ch) ==
    LET r == S0(t) IN
    CASE f.pc = "s_acq"  -> R([g EXCEPT !.lock = t], Goto(r.s, "s_test"), <<>>, {})
      [] f.pc = "s_test" -> IF g.link = 0 THEN R(g, Goto(r.s, "s_rel"), <<>>, {})
                            ELSE IF Has("sendReread")
                                 THEN R(g, Goto(r.s, IF f.b = 1 THEN "s_nr" ELSE "s_use"), <<>>, {})
                                 ELSE UseEffect(t, r, g.link, f.a, ch)        \* repaired: one read, used from a local
      [] f.pc = "s_nr"   -> IF g.link = 0 THEN Raise(t, r) ELSE R(g, Goto(r.s, "s_use"), <<>>, {})
      [] f.pc = "s_use"  -> IF g.link = 0 THEN Raise(t, r) ELSE UseEffect(t, r, g.link, f.a, ch)
      [] f.pc = "s_rel"  -> IF f.a >= 1000
                            THEN R([g EXCEPT !.lock = "free"], SetTop(r.s, F("lerr", "e_rs0", f.a - 1000, 0)),
                                   <<HBeg("lerr", f.a - 1000)>>, {})
                            ELSE R([g EXCEPT !.lock = "free"], Goto(r.s, "x_done"), <<>>, {})

\* --- _link_error_cb:  f.a = attempt whose link failed ------------------------------------------
LerrStep(t, f, ch) ==
    LET r == S0(t) IN
    CASE f.pc = "e_begin" -> IF f.a \in g.closed THEN R(g, <<>>, <<>>, {})       \* a closed driver object is silent
                             ELSE R(g, Goto(r.s, "e_rs0"), <<HBeg("lerr", f.a)>>, {})
      [] f.pc = "e_rs0" -> R(g, Goto(r.s, IF Has("errStateRace") THEN "e_rl1" ELSE "e_atom"), <<>>, {})
      [] f.pc = "e_atom" -> \* repaired: one lifecycle-lock section: take link and state, leave DISCONNECTED behind
            LET g1 == [g EXCEPT !.closed = IF g.link # 0 THEN @ \cup {g.link} ELSE @, !.link = 0, !.state = "DISC"] IN
            CASE g.link # f.a -> R(g, Goto(r.s, "e_done"), <<>>, {})     \* report of a link that is not current any more: ignored
              [] g.state = "INIT" -> Failed(R(g1, Goto(r.s, "e_done"), <<>>, {}), g.uri)
              [] g.state = "CONN" -> R(g1, Append(Goto(r.s, "e_done"), F("fan", "f_drain", 1, g.uri)), <<>>, {})
              [] OTHER -> R(g1, Goto(r.s, "e_done"), <<HCb("dle", g.uri, 0, 0)>>, {})
      [] f.pc = "e_rl1" -> IF g.link = 0 THEN R(g, Goto(r.s, "e_wl"), <<>>, {})
                           ELSE IF Has("errReread") THEN R(g, Goto(r.s, "e_rl2"), <<>>, {})
                           ELSE R([g EXCEPT !.closed = @ \cup {g.link}], Goto(r.s, "e_wl"), <<>>, {})
      [] f.pc = "e_rl2" -> IF g.link = 0 THEN Raise(t, r)
                           ELSE R([g EXCEPT !.closed = @ \cup {g.link}], Goto(r.s, "e_wl"), <<>>, {})
      [] f.pc = "e_wl"  -> R([g EXCEPT !.link = 0], Goto(r.s, "e_rs1"), <<>>, {})
      [] f.pc = "e_rs1" -> IF g.state = "INIT" THEN Failed(R(g, Goto(r.s, "e_ws"), <<>>, {}), g.uri)
                           ELSE R(g, Goto(r.s, "e_rs2"), <<>>, {})
      [] f.pc = "e_rs2" -> IF g.state = "CONN"
                           THEN R(g, Append(Goto(r.s, "e_ws"), F("fan", "f_drain", 1, 0)), <<>>, {})
                           ELSE R(g, Goto(r.s, "e_rs3"), <<>>, {})
      [] f.pc = "e_rs3" -> R(g, Goto(r.s, "e_rs4"), <<>>, {})
      [] f.pc = "e_rs4" -> IF g.state = "DISC" THEN R(g, Goto(r.s, "e_ws"), <<HCb("dle", g.uri, 0, 0)>>, {})
                           ELSE R(g, Goto(r.s, "e_ws"), <<>>, {})
      [] f.pc = "e_ws"  -> R([g EXCEPT !.state = "DISC"], Goto(r.s, "e_done"), <<>>, {})

\* --- disconnected.call(link_uri):  f.a = 1 iff connection_lost.call follows --------------------
FanEn(t, f, ch) ==
    /\ ch = "-"
    /\ f.pc = "f_join" => (t = "ping" \/ stk["ping"] = <<>>)
FanStep(t, f, ch) ==
    LET r == S0(t) IN
    CASE f.pc = "f_drain" -> IF g.reqQ # <<>> THEN R([g EXCEPT !.reqQ = Tail(@)], r.s, <<>>, {})
                             ELSE R(g, Goto(r.s, "f_wrel"), <<>>, {})
      [] f.pc = "f_wrel" ->
            LET g1 == [g EXCEPT !.waitLock = FALSE, !.tocOK = FALSE, !.nvals = 0, !.stopEvt = TRUE] IN
            IF Has("stopJoins") /\ g.pingInst /\ t = "ping" /\ Has("pingSelfJoin")
            THEN Raise(t, R(g1, r.s, <<>>, {}))   \* RuntimeError: cannot join current thread
            ELSE IF Has("stopJoins") /\ g.pingInst /\ t # "ping" THEN R(g1, Goto(r.s, "f_join"), <<>>, {})
            ELSE FanDeliver(R([g1 EXCEPT !.pingInst = FALSE], r.s, <<>>, {}))
      [] f.pc = "f_join" -> FanDeliver(R([g EXCEPT !.pingInst = FALSE], r.s, <<>>, {}))
      [] f.pc = "f_sset_d" -> R([g EXCEPT !.sDisc = "set"],
                                Goto(r.s, IF g.sConn # "none" /\ ~Has("syncOpenNoWake") THEN "f_sset_c" ELSE "f_done"), <<>>, {})
      [] f.pc = "f_sset_c" -> R([g EXCEPT !.sConn = "set"], Goto(r.s, "f_done"), <<>>, {})

\* --- a single Event.set of the wrapper inside a callback ----------------------------------------
EvtStep(t, f, ch) == IF f.pc = "x_rs" THEN R(g, Goto(stk[t], "x_done"), <<>>, {})      \* state read for the log message
                     ELSE R([g EXCEPT !.sConn = "set"], Goto(stk[t], "x_done"), <<>>, {})

\* --- open_link(n):  f.a = n, f.b = value written to link ----------------------------------------
OpenEn(t, f, ch) ==
    IF f.pc = "o_ws" THEN \/ ch = "-"
                          \/ ch \in {"cf1", "cf2"} \cap FaultBy /\ CanFault(f.a)
    ELSE ch = "-"
StartDisp(gg) == [gg EXCEPT !.dispStarted = TRUE]
OpenStep(t, f, ch) ==
    LET r == S0(t)
        n == f.a IN
    CASE f.pc = "o_ws" ->
            LET g1 == [g EXCEPT !.state = "INIT", !.uri = n] IN
            IF ch = "cf1" THEN R([g1 EXCEPT !.nfault = @ + 1, !.faulted = @ \cup {n}], Goto(r.s, "o_x_rl"), <<>>, {})
            ELSE IF ch = "cf2" THEN R([g1 EXCEPT !.nfault = @ + 1, !.faulted = @ \cup {n}],
                                      SetTop(r.s, F("open", "o_wl", n, 0)), <<>>, {})
            ELSE R(g1, SetTop(r.s, F("open", "o_wl", n, n)), <<>>, {})
      [] f.pc = "o_wl" -> R([g EXCEPT !.link = f.b, !.att = IF f.b # 0 THEN n ELSE @], Goto(r.s, "o_rl"), <<>>, {})
      [] f.pc = "o_rl" ->
            IF (IF Has("openReread") THEN g.link ELSE f.b) = 0 THEN Failed(R(g, Goto(r.s, "o_ret"), <<>>, {}), n)
            ELSE IF ~Alive("disp") /\ g.dispStarted
                 THEN R(g, Goto(r.s, "o_x_rl"), <<>>, {})                      \* Thread.start() of a dead thread raises
            ELSE LET g1 == [g EXCEPT !.initCb = TRUE, !.expect = 1, !.dispStarted = TRUE] IN
                 R(g1, Append(Goto(r.s, "o_ret"), F("send", "s_acq", 1, IF 1 >= ErFrom THEN 1 ELSE 0)), <<>>,
                   IF ~Alive("disp") THEN {"disp"} ELSE {})
      [] f.pc = "o_x_rl" -> IF g.link # 0 THEN R(g, Goto(r.s, "o_x_rl2"), <<>>, {})
                            ELSE Failed(R(g, Goto(r.s, "o_ret"), <<>>, {}), n)
      [] f.pc = "o_x_rl2" -> IF g.link = 0 THEN Raise(t, r)
                             ELSE R([g EXCEPT !.closed = @ \cup {g.link}], Goto(r.s, "o_x_wl"), <<>>, {})
      [] f.pc = "o_x_wl" -> Failed(R([g EXCEPT !.link = 0], Goto(r.s, "o_ret"), <<>>, {}), n)

\* --- close_link() --------------------------------------------------------------------------------
CloseStep(t, f, ch) ==
    LET r == S0(t) IN
    CASE f.pc = "c_rl1" -> IF g.link # 0 THEN R(g, Append(Goto(r.s, "c_rl2"), F("send", "s_acq", SETP, 0)), <<>>, {})
                           ELSE R(g, Goto(r.s, "c_rl2"), <<>>, {})
      [] f.pc = "c_rl2" -> IF ~Has("errStateRace")
                           THEN R([g EXCEPT !.closed = IF g.link # 0 THEN @ \cup {g.link} ELSE @, !.link = 0, !.state = "DISC"],
                                  Append(Goto(r.s, "c_done"), F("fan", "f_drain", 0, g.uri)), <<>>, {})
                           ELSE
                           IF g.link = 0 THEN R(g, Append(Goto(r.s, "c_ws"), F("fan", "f_drain", 0, 0)), <<>>, {})
                           ELSE IF Has("closeReread") THEN R(g, Goto(r.s, "c_rl3"), <<>>, {})
                           ELSE R([g EXCEPT !.closed = @ \cup {g.link}], Goto(r.s, "c_wl"), <<>>, {})
      [] f.pc = "c_rl3" -> IF g.link = 0 THEN Raise(t, r)
                           ELSE R([g EXCEPT !.closed = @ \cup {g.link}], Goto(r.s, "c_wl"), <<>>, {})
      [] f.pc = "c_wl"  -> R([g EXCEPT !.link = 0], Append(Goto(r.s, "c_ws"), F("fan", "f_drain", 0, 0)), <<>>, {})
      [] f.pc = "c_ws"  -> R([g EXCEPT !.state = "DISC"], Goto(r.s, "c_done"), <<>>, {})

\* --- SyncCf: SyncCrazyflie.open_link / close_link (the parts after the inner call) ------------------
SyncEn(t, f, ch) ==
    /\ ch = "-"
    /\ f.pc = "so_wait" => g.sConn = "set"
    /\ f.pc = "sc_wait" => g.sDisc = "set"
SyncStep(t, f, ch) ==
    LET r == S0(t) IN
    CASE f.pc = "so_wait" -> \* _connect_event = None; not open: remove callbacks and raise
            IF g.sOpen THEN R([g EXCEPT !.sConn = "none", !.sret = 1], Goto(r.s, "x_done"), <<>>, {})
            ELSE Raise(t, R([g EXCEPT !.sConn = "none", !.sCbs = FALSE], r.s, <<>>, {}))
      [] f.pc = "sc_wait" -> R([g EXCEPT !.sDisc = "none"], Goto(r.s, "x_done"), <<>>, {})

\* --- dispatcher:  f.a = local driver reference / packet being handled, f.b = 1 inside a port callback ---
FireConnected(r) ==
    LET u  == r.g.uri
        h1 == IF Has("staleFetcher") /\ r.g.stalePar > 0 THEN <<HCb("connected", u, 0, 0), HCb("connected", u, 1, 0)>>
              ELSE <<HCb("connected", u, 1, 0)>>
        startPing == ~(r.g.pingInst /\ Alive("ping"))
        g1 == [r.g EXCEPT !.expect = P + 1, !.tocOK = TRUE, !.stalePar = IF Has("staleFetcher") THEN 0 ELSE @,
                          !.stopEvt = IF startPing THEN FALSE ELSE @, !.pingInst = TRUE,
                          !.sOpen = IF r.g.sCbs THEN TRUE ELSE @]
        sp == IF startPing THEN {"ping"} ELSE {}
    IN IF r.g.sCbs /\ r.g.sConn # "none"
       THEN R(g1, SetTop(r.s, F("disp", "d_csset", 0, 1)), r.h \o h1, r.sp \cup sp)
       ELSE R(g1, SetTop(r.s, F("disp", "d_qput", 1, 1)), r.h \o h1, r.sp \cup sp)

\* the TocFetcher link-identity reads (only when "staleFetcher" is off, i.e. the fetchers check cf.link)
FetchStartRound(pk) == pk >= 1 /\ pk \in {LogStart, ParStart}
LogRound(pk) == pk \in (LogStart + 1)..LogEnd
ParRound(pk) == pk \in (ParStart + 1)..P
NeedsFrl(pk) == ~Has("staleFetcher") /\ (FetchStartRound(pk) \/ (LogStart >= 1 /\ LogRound(pk)) \/ ParRound(pk))

\* the action proper of the handler of reply pk (= g.expect, pk <= P)
HandlerMain(r, pk) ==
    LET gg == r.g IN
    IF pk < P
    THEN R([gg EXCEPT !.expect = pk + 1],
           Append(SetTop(r.s, IF ~Has("staleFetcher") /\ pk >= 1 /\ pk = LogStart /\ gg.staleLog > 0
                              THEN F("disp", "d_slrl", 0, 1) ELSE F("disp", "d_rl1", 0, 1)),
                  F("send", "s_acq", pk + 1, IF pk + 1 >= ErFrom THEN 1 ELSE 0)), r.h, r.sp)
    ELSE IF Has("errStateRace") \/ gg.state = "CONN" THEN FireConnected(r)
    ELSE R(gg, SetTop(r.s, F("disp", "d_rl1", 0, 0)), r.h, r.sp)   \* repaired: the attempt is gone

Handler(r, pk) ==
    LET gg == r.g IN
    IF pk \in 1..P
    THEN IF pk # gg.expect THEN R(gg, SetTop(r.s, F("disp", "d_rl1", 0, 0)), r.h, r.sp)
         ELSE IF ~Has("staleFetcher") /\ pk = ParStart + 1 /\ gg.stalePar > 0
              THEN R(gg, SetTop(r.s, F("disp", "d_srl", pk, 1)), r.h, r.sp)    \* stale parameter fetchers are called first
         ELSE IF NeedsFrl(pk) THEN R(gg, SetTop(r.s, F("disp", "d_frl", pk, 1)), r.h, r.sp)
         ELSE HandlerMain(r, pk)
    ELSE IF pk \in (P + 1)..(P + NPar) /\ gg.lockPat = pk
    THEN IF gg.tocOK /\ gg.nvals + 1 = NPar /\ ~gg.isUpd /\ (Has("errStateRace") \/ gg.state = "CONN")
         THEN R([gg EXCEPT !.nvals = @ + 1, !.isUpd = TRUE],
                SetTop(r.s, F("disp", IF gg.sCbs THEN "d_fsset" ELSE "d_wrel", 0, 1)),
                Append(r.h, HCb("fully", gg.uri, 1, 1)), r.sp)
         ELSE R([gg EXCEPT !.nvals = IF gg.tocOK THEN @ + 1 ELSE @], SetTop(r.s, F("disp", "d_wrel", 0, 1)), r.h, r.sp)
    ELSE R(gg, SetTop(r.s, F("disp", "d_rl1", 0, 0)), r.h, r.sp)

\* modelling limit: one ping thread slot.  connected may start a new ping thread only when the slot is
\* free or its occupant merely sleeps between two pings (then the new thread stands for both)
PingSlotFree == stk["ping"] = <<>> \/ (Len(stk["ping"]) = 1 /\ Top(stk["ping"]).pc = "p_sleep")
WouldConnect(pk) == pk = P /\ pk = g.expect /\ ~(g.pingInst /\ Alive("ping"))
DirectFire(pk) == WouldConnect(pk) /\ ~NeedsFrl(pk)
DispEn(t, f, ch) ==
    CASE f.pc = "d_recv" -> \/ ch = "to"
                            \/ /\ ch = "-" /\ g.inq[f.a] # <<>>
                               /\ (~g.initCb /\ DirectFire(Head(g.inq[f.a]))) => PingSlotFree
      [] f.pc = "d_ws" -> ch = "-" /\ (DirectFire(f.a) => PingSlotFree)
      [] f.pc = "d_frl" -> ch = "-" /\ (WouldConnect(f.a) => PingSlotFree)
      [] OTHER -> ch = "-"
DispStep(t, f, ch) ==
    LET r == S0(t) IN
    CASE f.pc = "d_begin" -> R(g, Goto(r.s, "d_rl1"), <<>>, {})
      [] f.pc = "d_rl1" -> IF g.link = 0 THEN R(g, SetTop(r.s, F("disp", "d_sleep", 0, 0)), <<>>, {})
                           ELSE IF Has("dispReread") THEN R(g, SetTop(r.s, F("disp", "d_rl2", 0, 0)), <<>>, {})
                           ELSE R(g, SetTop(r.s, F("disp", "d_recv", g.link, 0)), <<>>, {})
      [] f.pc = "d_sleep" -> R(g, Goto(r.s, "d_rl1"), <<>>, {})
      [] f.pc = "d_rl2" -> IF g.link = 0 THEN Raise(t, r)
                           ELSE R(g, SetTop(r.s, F("disp", "d_recv", g.link, 0)), <<>>, {})
      [] f.pc = "d_recv" ->
            IF ch = "to" THEN R(g, SetTop(r.s, F("disp", "d_rl1", 0, 0)), <<>>, {})
            ELSE LET pk == Head(g.inq[f.a])
                     g1 == [g EXCEPT !.inq[f.a] = Tail(@)] IN
                 IF ~Has("dispStalePk") /\ f.a # g.link
                 THEN R(g1, SetTop(r.s, F("disp", "d_rl1", 0, 0)), <<>>, {})   \* repaired: packet of a link that is not current any more
                 ELSE
                 IF g.initCb THEN R(g1, SetTop(r.s, F("disp", "d_ws", pk, f.a)), <<>>, {})    \* b = the link it came from
                 ELSE Handler(R(g1, r.s, <<>>, {}), pk)
      [] f.pc = "d_ws" ->
            IF Has("errStateRace") \/ (g.state = "INIT" /\ (Has("dispStalePk") \/ g.link = f.b))
            THEN Handler(R([g EXCEPT !.state = "CONN", !.initCb = FALSE], r.s,
                           <<HCb("established", g.uri, 0, 0)>>, {}), f.a)
            ELSE IF ~Has("dispStalePk") /\ g.link # f.b
                 THEN R(g, SetTop(r.s, F("disp", "d_rl1", 0, 0)), <<>>, {})     \* repaired: packet of a replaced link is dropped
            ELSE Handler(R(g, r.s, <<>>, {}), f.a)       \* repaired: not INITIALIZED any more -> no transition
      [] f.pc = "d_srl" -> \* a stale parameter fetcher reads cf.link, sees another link, unregisters itself
            LET g1 == [g EXCEPT !.stalePar = @ - 1] IN
            IF g1.stalePar > 0 THEN R(g1, r.s, <<>>, {})
            ELSE IF NeedsFrl(f.a) THEN R(g1, SetTop(r.s, F("disp", "d_frl", f.a, 1)), <<>>, {})
            ELSE HandlerMain(R(g1, r.s, <<>>, {}), f.a)
      [] f.pc = "d_frl" -> \* TocFetcher.start(): remember cf.link;  TocFetcher._new_packet_cb: is it still my link?
            IF FetchStartRound(f.a)
            THEN HandlerMain(R(IF f.a = LogStart THEN [g EXCEPT !.fLog = g.link] ELSE [g EXCEPT !.fPar = g.link], r.s, <<>>, {}), f.a)
            ELSE IF g.link # (IF LogStart >= 1 /\ LogRound(f.a) THEN g.fLog ELSE g.fPar)
                 THEN R([g EXCEPT !.expect = 0], SetTop(r.s, F("disp", "d_rl1", 0, 0)), <<>>, {})   \* the download stops here
            ELSE HandlerMain(R(g, r.s, <<>>, {}), f.a)
      [] f.pc = "d_slrl" -> \* stale log fetchers (registered after Log's own callback) see the log-reset reply
            LET g1 == [g EXCEPT !.staleLog = @ - 1] IN
            IF g1.staleLog > 0 THEN R(g1, r.s, <<>>, {}) ELSE R(g1, SetTop(r.s, F("disp", "d_rl1", 0, 0)), <<>>, {})
      [] f.pc = "d_csset" -> R([g EXCEPT !.sConn = "set"], SetTop(r.s, F("disp", "d_qput", 1, 1)), <<>>, {})
      [] f.pc = "d_qput" -> \* request_update_of_all_params: one request_queue.put per parameter
            R([g EXCEPT !.reqQ = Append(@, P + f.a)],
              SetTop(r.s, IF f.a < NPar THEN F("disp", "d_qput", f.a + 1, 1) ELSE F("disp", "d_rl1", 0, 0)), <<>>, {})
      [] f.pc = "d_fsset" -> R(g, Goto(r.s, "d_wrel"), <<>>, {})
      [] f.pc = "d_wrel" -> R([g EXCEPT !.lockPat = 0, !.waitLock = FALSE], SetTop(r.s, F("disp", "d_rl1", 0, 0)), <<>>, {})

\* --- _ParamUpdater.run:  f.a = request taken from the queue ----------------------------------------
UpdEn(t, f, ch) ==
    /\ ch = "-"
    /\ f.pc = "u_get" => g.reqQ # <<>>
    /\ f.pc = "u_wacq" => ~g.waitLock
UpdStep(t, f, ch) ==
    LET r == S0(t) IN
    CASE f.pc = "u_begin" -> R(g, Goto(r.s, "u_get"), <<>>, {})
      [] f.pc = "u_get"  -> R([g EXCEPT !.reqQ = Tail(@)], SetTop(r.s, F("upd", "u_wacq", Head(g.reqQ), 0)), <<>>, {})
      [] f.pc = "u_wacq" -> R([g EXCEPT !.waitLock = TRUE], Goto(r.s, "u_rl"), <<>>, {})
      [] f.pc = "u_rl"   -> IF g.link = 0 THEN R(g, Goto(r.s, "u_wrel"), <<>>, {})
                            ELSE R([g EXCEPT !.lockPat = f.a],
                                   Append(SetTop(r.s, F("upd", "u_get", 0, 0)), F("send", "s_acq", f.a, 1)), <<>>, {})
      [] f.pc = "u_wrel" -> IF ~g.waitLock /\ Has("updDoubleRelease")
                            THEN Raise(t, r)         \* RuntimeError: release unlocked lock (close() released it meanwhile)
                            ELSE R([g EXCEPT !.waitLock = FALSE], SetTop(r.s, F("upd", "u_get", 0, 0)), <<>>, {})

\* --- Latency._ping_thread ------------------------------------------------------------------------------
PingStep(t, f, ch) ==
    LET r == S0(t) IN
    IF g.stopEvt THEN R(g, <<>>, <<>>, {})
    ELSE IF g.pings < MaxPings
         THEN R([g EXCEPT !.pings = @ + 1], Append(Goto(r.s, "p_sleep"), F("send", "s_acq", PING, 0)), <<>>, {})
         ELSE R(g, Goto(r.s, "p_sleep"), <<>>, {})

\* ----------------------------------------------------------------------------------------------
\* the visible operation a thread is parked at (binding: must equal the kind of the logged event)
\* ----------------------------------------------------------------------------------------------
OpOfPc(pc) ==
    CASE pc \in {"s_acq"} -> "acq" [] pc \in {"s_rel"} -> "rel"
      [] pc \in {"s_test", "s_nr", "s_use", "e_rl1", "e_rl2", "o_rl", "o_x_rl", "o_x_rl2", "c_rl1", "c_rl2", "c_rl3",
                 "d_rl1", "d_rl2", "u_rl", "d_srl", "d_frl", "d_slrl"} -> "rl"
      [] pc \in {"e_wl", "o_wl", "o_x_wl", "c_wl"} -> "wl"
      [] pc \in {"e_rs0", "e_rs1", "e_rs2", "e_rs3", "e_rs4", "x_rs"} -> "rs"
      [] pc \in {"e_ws", "o_ws", "c_ws", "d_ws"} -> "ws"
      [] pc \in {"e_begin", "d_begin", "u_begin", "p_begin"} -> "begin"
      [] pc = "e_atom" -> "la"
      [] pc \in {"f_drain", "u_get"} -> "qget" [] pc = "d_qput" -> "qput" [] pc = "u_wacq" -> "wacq" [] pc \in {"f_wrel", "d_wrel", "u_wrel"} -> "wrel"
      [] pc = "f_join" -> "join" [] pc \in {"d_sleep", "p_sleep"} -> "sleep" [] pc = "d_recv" -> "recv"
      [] pc \in {"f_sset_c", "f_sset_d", "x_sset", "d_csset", "d_fsset"} -> "sset"
      [] pc \in {"so_wait", "sc_wait"} -> "swait"
      [] OTHER -> "?"
OpKind(t) == IF stk[t] = <<>> THEN "none" ELSE OpOfPc(Top(stk[t]).pc)

\* ----------------------------------------------------------------------------------------------
\* history application
\* ----------------------------------------------------------------------------------------------
RECURSIVE ApplyHist(_, _, _)
ApplyHist(H, t, items) ==
    IF items = <<>> THEN H
    ELSE LET it == Head(items) IN
         ApplyHist(
           CASE it.k = "beg" ->
                  [H EXCEPT !.act = Pr!WinBegin(H.act, H.words[it.att], it.kind, t, it.att),
                            !.nstim = IF it.kind = "close" THEN [@ EXCEPT ![it.att].close = @ + 1]
                                      ELSE IF it.kind = "lerr" THEN [@ EXCEPT ![it.att].fail = @ + 1] ELSE @]
             [] it.k = "end" ->
                  LET i == Pr!InnermostOf(H.act, t, {it.kind}) IN
                  IF i = 0 THEN H
                  ELSE [H EXCEPT !.act = Pr!WinRemove(H.act, i),
                                 !.viol = IF @ = "ok" THEN Pr!WinClause(H.act[i], H.words[H.act[i].att]) ELSE @]
             [] OTHER ->
                  LET w == Append(H.words[it.att], it.name) IN
                  [H EXCEPT !.words[it.att] = w,
                            !.act = Pr!WinCallback(H.act, t, it.name, it.att),
                            !.viol = IF @ = "ok" THEN Pr!CallbackClause(w, it.name, it.tocs, it.vals) ELSE @],
           t, Tail(items))

InitStack(t) == CASE t = "disp" -> <<F("disp", "d_begin", 0, 0)>>
                  [] t = "ping" -> <<F("ping", "p_begin", 0, 0)>>
                  [] t = "err1" -> <<F("lerr", "e_begin", 1, 0)>>
                  [] t = "err2" -> <<F("lerr", "e_begin", 2, 0)>>
                  [] OTHER -> <<F("lerr", "e_begin", 3, 0)>>

Commit(t, r0) ==
    LET r == Settle(r0)
        H == ApplyHist([words |-> words, act |-> act, nstim |-> nstim, viol |-> viol], t, r.h)
    IN /\ g' = r.g
       /\ stk' = [x \in Threads |-> IF x = t THEN r.s ELSE IF x \in r.sp THEN InitStack(x) ELSE stk[x]]
       /\ words' = H.words /\ act' = H.act /\ nstim' = H.nstim /\ viol' = H.viol
       /\ vwhen' = IF viol = "ok" /\ H.viol # "ok" THEN (IF r.g.next >= 3 THEN "R" ELSE "T") ELSE vwhen

\* ----------------------------------------------------------------------------------------------
\* thread steps
\* ----------------------------------------------------------------------------------------------
En(t, ch) ==
    /\ stk[t] # <<>> /\ t \notin g.dead
    /\ LET f == Top(stk[t]) IN
       CASE f.r = "send" -> SendEn(t, f, ch)
         [] f.r = "fan" -> FanEn(t, f, ch)
         [] f.r = "open" -> OpenEn(t, f, ch)
         [] f.r \in {"sopen", "sclose"} -> SyncEn(t, f, ch)
         [] f.r = "disp" -> DispEn(t, f, ch)
         [] f.r = "upd" -> UpdEn(t, f, ch)
         [] OTHER -> ch = "-"
Eff(t, ch) ==
    LET f == Top(stk[t]) IN
    CASE f.r = "send" -> SendStep(t, f, ch)
      [] f.r = "lerr" -> LerrStep(t, f, ch)
      [] f.r = "fan" -> FanStep(t, f, ch)
      [] f.r = "evt" -> EvtStep(t, f, ch)
      [] f.r = "open" -> OpenStep(t, f, ch)
      [] f.r = "close" -> CloseStep(t, f, ch)
      [] f.r \in {"sopen", "sclose"} -> SyncStep(t, f, ch)
      [] f.r = "disp" -> DispStep(t, f, ch)
      [] f.r = "upd" -> UpdStep(t, f, ch)
      [] f.r = "ping" -> PingStep(t, f, ch)

Choices == {"-", "sender", "driver", "cf1", "cf2", "to"}
Step(t, ch) == En(t, ch) /\ Commit(t, Eff(t, ch))

\* ----------------------------------------------------------------------------------------------
\* the users (environment): API calls.  A call is started when the thread has nothing on its stack.
\* ----------------------------------------------------------------------------------------------
Idle(t) == stk[t] = <<>> /\ t \notin g.dead
CurAtt == g.next - 1
\* a TocFetcher that was registered and not finished when the previous attempt ended is left behind
Min2(x) == IF x > 2 THEN 2 ELSE x
OpenEntry(gg, n) == [gg EXCEPT !.isUpd = FALSE, !.nvals = 0, !.tocOK = FALSE,
                               !.staleLog = IF LogStart >= 1 /\ gg.expect \in (LogStart + 1)..LogEnd THEN Min2(@ + 1) ELSE @,
                               !.stalePar = IF gg.expect \in (ParStart + 1)..P THEN Min2(@ + 1) ELSE @]

\* plain Crazyflie.open_link(n) by the user: the previous attempt is over (as seen by the user)
UOpenG == ~UseSync /\ Idle("user") /\ g.next < NAtt /\ (g.next = 1 \/ CurAtt \in g.over)
UOpen == /\ UOpenG
         /\ LET n == g.next IN
            Commit("user", R(OpenEntry([g EXCEPT !.next = n + 1], n), <<F("open", "o_ws", n, 0)>>,
                             <<HBeg("open", n), HCb("requested", n, 0, 0)>>, {}))
\* SyncCrazyflie.open_link
USOpenG == UseSync /\ Idle("user") /\ g.next < NAtt /\ (g.next = 1 \/ CurAtt \in g.over)
USOpen == /\ USOpenG
          /\ LET n == g.next IN
             IF g.sOpen THEN Commit("user", R([g EXCEPT !.next = n + 1, !.sret = 0], <<>>, <<>>, {}))   \* 'Link already open'
             ELSE Commit("user", R(OpenEntry([g EXCEPT !.next = n + 1, !.sCbs = TRUE, !.sConn = "clear", !.sret = 0], n),
                                   <<F("sopen", "so_wait", n, 0), F("open", "o_ws", n, 0)>>,
                                   <<HBeg("open", n), HCb("requested", n, 0, 0)>>, {}))
\* Crazyflie.close_link by the user (once per attempt), also on an attempt that is already over
UCloseG == /\ Idle("user") /\ ~g.epi /\ CurAtt >= 1 /\ CurAtt \notin g.uclosed
           /\ (UseSync => g.sret = 0)            \* the wrapper user closes through the wrapper after a successful open
UClose == /\ UCloseG
          /\ Commit("user", R([g EXCEPT !.uclosed = @ \cup {CurAtt}], <<F("close", "c_rl1", CurAtt, 0)>>,
                              <<HBeg("close", CurAtt)>>, {}))
\* SyncCrazyflie.close_link after a successful SyncCrazyflie.open_link
USCloseG == UseSync /\ Idle("user") /\ ~g.epi /\ CurAtt >= 1 /\ g.sret = 1 /\ CurAtt \notin g.uclosed
USClose == /\ USCloseG
           /\ IF ~g.sOpen THEN Commit("user", R([g EXCEPT !.uclosed = @ \cup {CurAtt}, !.sret = 0], <<>>, <<>>, {}))
              ELSE Commit("user", R([g EXCEPT !.uclosed = @ \cup {CurAtt}, !.sDisc = "clear", !.sret = 0],
                                    <<F("sclose", "sc_wait", CurAtt, 0), F("close", "c_rl1", CurAtt, 0)>>,
                                    <<HBeg("close", CurAtt)>>, {}))
\* a second thread closes the current attempt at any time after its driver was attached
CCloseG == /\ Closer /\ Idle("closer") /\ ~g.epi /\ CurAtt >= 1 /\ CurAtt \notin g.cclosed
           /\ (g.att = CurAtt \/ CurAtt \in g.over)
CClose == /\ CCloseG
          /\ Commit("closer", R([g EXCEPT !.cclosed = @ \cup {CurAtt}], <<F("close", "c_rl1", CurAtt, 0)>>,
                                <<HBeg("close", CurAtt)>>, {}))

\* ----------------------------------------------------------------------------------------------
\* quiescence
\* ----------------------------------------------------------------------------------------------
Blocked(t) ==
    /\ stk[t] # <<>> /\ t \notin g.dead
    /\ LET f == Top(stk[t]) IN
       \/ f.pc = "s_acq" /\ g.lock # "free"
       \/ f.pc = "f_join" /\ t # "ping" /\ stk["ping"] # <<>>
       \/ f.pc = "so_wait" /\ g.sConn # "set"
       \/ f.pc = "sc_wait" /\ g.sDisc # "set"
       \/ f.pc = "u_get" /\ g.reqQ = <<>>
       \/ f.pc = "u_wacq" /\ g.waitLock
NoTraffic == IF g.link = 0 THEN TRUE ELSE g.inq[g.link] = <<>>
IdlePoll(t) ==
    /\ stk[t] # <<>> /\ t \notin g.dead
    /\ LET f == Top(stk[t]) IN
       \/ t = "disp" /\ Len(stk[t]) = 1 /\ NoTraffic
             /\ \/ f.pc \in {"d_rl1", "d_sleep"}
                \/ f.pc = "d_rl2" /\ g.link # 0
                \/ f.pc = "d_recv" /\ g.inq[f.a] = <<>>
       \/ t = "ping" /\ f.pc = "p_sleep" /\ ~g.stopEvt /\ g.pings >= MaxPings
Resting(t) == stk[t] = <<>> \/ t \in g.dead \/ Blocked(t) \/ IdlePoll(t)
UserCallEnabled == UOpenG \/ USOpenG \/ UCloseG \/ USCloseG \/ CCloseG
PreQuiet == ~g.epi /\ (\A t \in Threads : Resting(t)) /\ ~UserCallEnabled
\* the epilogue: once everything is quiet, the same object is opened again, fault-free
EOpen == /\ PreQuiet
         /\ Commit("epi", R(OpenEntry([g EXCEPT !.epi = TRUE, !.next = NAtt + 1], NAtt), <<F("open", "o_ws", NAtt, 0)>>,
                            <<HBeg("open", NAtt), HCb("requested", NAtt, 0, 0)>>, {}))
PostQuiet == g.epi /\ \A t \in Threads : Resting(t)

Role(t) == IF t \in Errs THEN "err" ELSE t
ThreadSeq == <<"user", "closer", "epi", "disp", "upd", "ping", "err1", "err2", "err3">>
QThreads == LET S == {t \in Threads : t \in g.dead \/ stk[t] # <<>>}
                rec(t) == [role |-> Role(t),
                           status |-> IF t \in g.dead THEN "dead" ELSE IF Blocked(t) THEN "blocked" ELSE "timed-wait",
                           op |-> IF t \in g.dead THEN "" ELSE
                                  CASE OpKind(t) \in {"acq", "wacq"} -> "lock.acquire" [] OpKind(t) = "join" -> "thread.join"
                                    [] OpKind(t) = "swait" -> "event.wait" [] OpKind(t) = "qget" -> "queue.get"
                                    [] OTHER -> OpKind(t),
                           file |-> IF t \notin g.dead /\ OpKind(t) = "swait" THEN "syncCrazyflie.py" ELSE "cflib"]
                s == SelectSeq(ThreadSeq, LAMBDA t : t \in S)
            IN [i \in DOMAIN s |-> rec(s[i])]
QPending == LET S == {t \in Users : stk[t] # <<>>}
                kind(t) == LET b == stk[t][1].r IN IF b \in {"sopen", "sclose", "open", "close"} THEN b ELSE "other"
                s == SelectSeq(ThreadSeq, LAMBDA t : t \in S)
            IN [i \in DOMAIN s |-> [kind |-> kind(s[i])]]
QRecord == [threads |-> QThreads, pending |-> QPending,
            state |-> IF g.state = "DISC" THEN 0 ELSE 1,
            disp_alive |-> IF "disp" \in g.dead THEN 0 ELSE 1]
Spurious == \* over the whole history (a slow close_link may deliver its disconnected with the next attempt's URI)
    LET RECURSIVE Sum(_, _)
        Sum(f, S) == IF S = {} THEN 0 ELSE LET x == CHOOSE x \in S : TRUE IN f[x] + Sum(f, S \ {x})
        nd == [a \in 0..NAtt |-> Pr!Count(words[a], "disconnected")]
        nl == [a \in 0..NAtt |-> Pr!Count(words[a], "lost")]
        nc == [a \in 0..NAtt |-> nstim[a].close + nstim[a].fail]
        nf == [a \in 0..NAtt |-> nstim[a].fail]
    IN Sum(nd, 0..NAtt) > Sum(nc, 0..NAtt) \/ Sum(nl, 0..NAtt) > Sum(nf, 0..NAtt)

\* ----------------------------------------------------------------------------------------------
Next == \/ \E t \in Threads, ch \in Choices : Step(t, ch)
        \/ UOpen \/ USOpen \/ UClose \/ USClose \/ CClose \/ EOpen
Spec == Init /\ [][Next]_vars

\* ---- properties (C02), all through LifecycleProps ----------------------------------------------
\* callback grammar, facts, per-call windows: the first failing clause of the history
HistoryOK == viol = "ok"
\* at the virtual horizon: no thread dead / deadlocked, blocking wrapper calls returned, DISCONNECTED
LastStim == CurAtt >= 1 /\ nstim[CurAtt].close + nstim[CurAtt].fail > 0
QuietOK == PreQuiet => (Pr!QuietClause(QRecord, LastStim) = "ok" /\ ~Spurious)
\* the same object connects again
ReconnectOK == PostQuiet => Pr!EpilogueClause(IF Pr!Has(words[NAtt], "connected") THEN 1 ELSE 0,
                                              IF Pr!Has(words[NAtt], "fully") THEN 1 ELSE 0) = "ok"
NoThreadDies == g.dead = {}
\* single clauses of HistoryOK / search targets (used to obtain the schedule that exposes ONE code site; the verdict
\* on the real code always comes from the monitor)
CloseCallsOK == viol # "CloseOneDisconnected"
\* enumeration of the clauses the as-is design can violate (reports/C02.md, known findings): Seen is a set of strings
ViolKey == viol \o "/" \o vwhen
NoEarlyConnected == viol # "ConnectedBeforeTables"
\* fully_connected is never delivered after the attempt's disconnected: Param._disconnected (first callback of the
\* fan-out) empties table and values before any application callback sees `disconnected`
NoFullyAfterDisconnected ==
    \A a \in 0..NAtt : \A i, j \in DOMAIN words[a] : (i < j /\ words[a][i] = "disconnected") => words[a][j] # "fully"
NoLeakedSendLock == ~(PreQuiet /\ g.lock # "free" /\ viol = "ok" /\ g.dead = {})
\* search target (not a clause of C02; used to obtain a schedule that is then run against the real code and judged by
\* the monitor): a thread joins the ping thread while it holds _send_lock and the ping thread waits for that lock
NoJoinUnderSendLock ==
    \A t \in Threads : ~(/\ stk[t] # <<>> /\ Top(stk[t]).pc = "f_join" /\ g.lock = t
                         /\ stk["ping"] # <<>> /\ Top(stk["ping"]).pc = "s_acq")
TypeOK == g.state \in {"DISC", "INIT", "CONN"} /\ g.link \in 0..NAtt /\ g.lock \in Threads \cup {"free"}
=============================================================================
