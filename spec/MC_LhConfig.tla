---- MODULE MC_LhConfig ----
EXTENDS LhConfig
D(op, objs, cobjs, hasg, hasc, sys) ==
    [op |-> op, objs |-> objs, cobjs |-> cobjs, hasg |-> hasg, hasc |-> hasc, sys |-> sys]
WG1 == D("wg", <<<<0, 1, 1>>>>, <<>>, 0, 0, 0)
WG2 == D("wg", <<<<1, 2, 1>>, <<0, 3, 0>>>>, <<>>, 0, 0, 0)
WG0 == D("wg", <<>>, <<>>, 0, 0, 0)
WC1 == D("wc", <<<<1, 4, 1>>>>, <<>>, 0, 0, 0)
RG == D("rg", <<>>, <<>>, 0, 0, 0)
RC == D("rc", <<>>, <<>>, 0, 0, 0)
STG == D("st", <<<<1, 5, 1>>>>, <<>>, 1, 0, 0)
STC == D("st", <<>>, <<<<0, 6, 1>>>>, 0, 1, 2)
STB == D("st", <<<<0, 7, 1>>>>, <<<<1, 8, 1>>>>, 1, 1, 1)
STE == D("st", <<>>, <<>>, 1, 1, 0)
STN == D("st", <<>>, <<>>, 0, 0, 0)
MenuQuick == {WG1, WG0, WC1, RG, STG, STC}
FollowQuick == {WC1, STN}
MenuThorough == {WG1, WG2, WG0, WC1, RG, RC, STG, STC, STB, STN}
FollowThorough == {WC1, STC}
MenuSim == {WG1, WG2, WG0, WC1, RG, RC, STG, STC, STB, STE, STN}
FollowSim == {RG, RC, WC1, WG1, STG, STB}
MenuTour == {WG1, WC1, STB, STC, STN, WG0}
FollowTour == {WC1, STG}
ReadDataQuick == {<<9, 1>>}
ReadDataThorough == {<<9, 1>>, <<0, 0>>}
BugsNone == {}
BugsWedge == {"wedge"}
BugsPack == {"pack"}
BugsNoGuard == {"noguard"}
BugsEarly == {"early_persist"}
BugsStoreWedge == {"store_wedge"}
BugsAsIs == {"store_wedge"}
BugsPreFix == {"store_wedge", "wedge", "pack"}
====
