------------------------------ MODULE RetryTrace ------------------------------
(* Trace spec (monitor) for C10.  Events recorded from the real Crazyflie.send_packet /
   _check_for_answers / close_link / Timer threads against the simulated link:
     send [req, sess, pat, tmo, after]  the application calls send_packet(expected_reply) (before the call);
                                     after = id (last byte) of the incoming packet whose handler issues it, 0 = none
     tx   [req, sess, t, strict]     the link saw a transmission of request req (sess 0 = on a closed
                                     or superseded link object)
     ansb [sess, data, t]            the library starts checking an incoming packet for answers
     ans  [sess, data, t]            ... and has finished checking it
     drop [req, t]                   request handed to a link object that was already closed (no transmission)
     died [thread, t]                a library thread (dispatcher, retry timer) ended with an exception
     end  [t, sess, strict]          end of the execution: time, session of the open link (0 = closed);
                                     strict = time only advanced when no thread could run
   Positions in the event list give the global order (n).                                         *)
EXTENDS Naturals, Sequences, FiniteSets, TLC, Json, IOUtils

CONSTANT Reliable
P == INSTANCE RetryProps
Traces == JsonDeserialize(IOEnv.TRACE_FILE)

VARIABLES tid, l, reqs, reqsTx, wire, ans, bad, badAt
vars == <<tid, l, reqs, reqsTx, wire, ans, bad, badAt>>
T == Traces[tid]
Ev == T.ev[l]

Init == /\ tid \in 1..Len(Traces) /\ l = 1
        /\ reqs = <<>> /\ reqsTx = <<>> /\ wire = <<>> /\ ans = <<>>
        /\ bad = "ok" /\ badAt = 0

Fail(c) == IF bad = "ok" /\ c # "ok" THEN bad' = c /\ badAt' = l ELSE UNCHANGED <<bad, badAt>>

ESend == /\ Ev.e = "send"
         \* reqs: n = position of the call; reqsTx: n = position of the first transmission (set at tx)
         /\ reqs' = Append(reqs, [n |-> l, sess |-> Ev.sess, pat |-> Ev.pat, tmo |-> Ev.tmo, t |-> 0, after |-> Ev.after])
         /\ reqsTx' = Append(reqsTx, [n |-> 0, sess |-> Ev.sess, pat |-> Ev.pat, tmo |-> Ev.tmo, t |-> 0])
         /\ UNCHANGED <<wire, ans, bad, badAt>>

\* The answer to request r had been processed before its next retry was due.  (A retry whose
\* timer was already due when the answer was processed may still go out: the resend decision is
\* taken under the send lock and cannot be observed separately from the transmission.)
TimeOfAns(k) == LET c == {i \in DOMAIN ans : ans[i].n = k} IN ans[CHOOSE i \in c : TRUE].t
PrevTx(r) == LET c == {i \in DOMAIN wire : wire[i].req = r} IN wire[CHOOSE i \in c : \A j \in c : j <= i].t
AnsweredBeforeDue(rtx, r) ==
    LET a == P!AnsState(reqs, rtx, ans)[r] IN a # 0 /\ a # P!Maybe /\ TimeOfAns(a) < PrevTx(r) + reqs[r].tmo

ETx == /\ Ev.e = "tx"
       /\ LET first == ~\E i \in DOMAIN wire : wire[i].req = Ev.req
              w == [n |-> l, t |-> Ev.t, sess |-> Ev.sess, req |-> Ev.req, first |-> first]
              wire2 == Append(wire, w)
              rtx == IF first THEN [reqsTx EXCEPT ![Ev.req].n = l] ELSE reqsTx
          IN /\ wire' = wire2 /\ reqsTx' = rtx
             /\ Fail(IF Ev.sess = 0 THEN "TransmittedOnClosedLink"
                     ELSE IF Ev.sess # reqs[Ev.req].sess THEN "CrossSession"
                     ELSE IF ~first /\ Reliable THEN "RetryOnReliableLink"
                     ELSE IF ~first /\ AnsweredBeforeDue(rtx, Ev.req) THEN "RetryAfterAnswer"
                     \* (only where time advances only when no thread can run: otherwise a thread
                     \* that is slow between re-arming and transmitting makes the next retry look early)
                     ELSE IF Ev.strict /\ ~P!Interval(wire2, reqs) THEN "RetryTooEarly"
                     ELSE "ok")
       /\ UNCHANGED <<reqs, ans>>

\* ansb: the library starts checking an incoming packet (this fixes which request it answers: n);
\* ans: the check is complete (from this time on the request counts as answered: t).
Pending == 1073741823
EAnsB == /\ Ev.e = "ansb"
         /\ ans' = Append(ans, [n |-> l, t |-> Pending, sess |-> Ev.sess, data |-> Ev.data])
         /\ UNCHANGED <<reqs, reqsTx, wire, bad, badAt>>
EAns == /\ Ev.e = "ans"
        /\ ans' = IF Len(ans) > 0 /\ ans[Len(ans)].t = Pending /\ ans[Len(ans)].data = Ev.data
                  THEN [ans EXCEPT ![Len(ans)].t = Ev.t]
                  ELSE Append(ans, [n |-> l, t |-> Ev.t, sess |-> Ev.sess, data |-> Ev.data])
        /\ UNCHANGED <<reqs, reqsTx, wire, bad, badAt>>

\* a packet handed to a link object that is already closed: nothing goes on the wire
EDrop == /\ Ev.e = "drop"
         /\ UNCHANGED <<reqs, reqsTx, wire, ans, bad, badAt>>

\* a library thread that died with an exception: incoming packets are no longer checked (dispatcher)
\* or the request is no longer retried (timer) -- "retransmitted until a matching packet is received,
\* and not after that" cannot hold from here on
EDied == /\ Ev.e = "died"
         /\ Fail("LibraryThreadDied")
         /\ UNCHANGED <<reqs, reqsTx, wire, ans>>

\* last transmission time of request r (0 if none)
LastTx(r) == LET c == {i \in DOMAIN wire : wire[i].req = r} IN
             IF c = {} THEN 0 ELSE wire[CHOOSE i \in c : \A j \in c : j <= i].t
Gaps(r) == LET c == {i \in DOMAIN wire : wire[i].req = r} IN
           \A i, j \in c : (i < j /\ ~\E k \in c : i < k /\ k < j) => wire[j].t - wire[i].t = reqs[r].tmo

\* while its link is open and it is unanswered a request keeps being retransmitted at its interval
EEnd == /\ Ev.e = "end"
        /\ LET am == P!AnsState(reqs, reqsTx, ans)
               owed == {r \in DOMAIN reqs : am[r] = 0 /\ reqs[r].sess = Ev.sess /\ Ev.sess # 0}
           IN Fail(IF Reliable \/ ~Ev.strict THEN "ok"
                   ELSE IF \E r \in owed : LastTx(r) + reqs[r].tmo < Ev.t THEN "RetryStopped"
                   ELSE IF \E r \in owed : ~Gaps(r) THEN "RetryLate"
                   ELSE "ok")
        /\ UNCHANGED <<reqs, reqsTx, wire, ans>>

Step == /\ l <= Len(T.ev) /\ l' = l + 1 /\ UNCHANGED tid
        /\ (ESend \/ ETx \/ EAnsB \/ EAns \/ EDrop \/ EDied \/ EEnd)
Finish == /\ l = Len(T.ev) + 1 /\ l' = l + 1
          /\ PrintT(<<"VERDICT", T.id, bad, badAt, TRUE, 0>>)
          /\ UNCHANGED <<tid, reqs, reqsTx, wire, ans, bad, badAt>>
Next == Step \/ Finish
Spec == Init /\ [][Next]_vars
=============================================================================
