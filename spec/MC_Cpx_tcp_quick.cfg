SPECIFICATION Spec
CONSTANTS
  Packets <- PacketsTcp
  MaxPackets = 2
  NR = 0
  RFns <- RFnsTcp
  SendSets <- Send1Tcp
  MaxSends = 1
  Mode = "tcp"
  LateRegister = FALSE
  Bug = "none"
INVARIANT TypeOK
INVARIANT CodecOK
INVARIANT ReadsOK
INVARIANT RouteOK
INVARIANT DownOK
INVARIANT UpOK
CHECK_DEADLOCK FALSE
