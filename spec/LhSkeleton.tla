------------------------------ MODULE LhSkeleton ------------------------------
(* X03 -- design spec of the DISCRETE skeleton of the lighthouse geometry pipeline:

     cflib/localization/lighthouse_sample_matcher.py   LighthouseSampleMatcher.match / _append_result
     cflib/localization/lighthouse_initial_estimator.py LighthouseInitialEstimator.estimate and the
         bookkeeping of _angles_to_poses, the reference choice, _estimate_remaining_bs_poses,
         _estimate_cf_poses  (NOT the numerics: IPPE, pose algebra, averaging)

   One action per step of the code that leaves an observable trace:

     matcher     MNext      the for loop takes the next measurement (the environment chooses it:
                            the list is produced lazily, the state after k elements does not
                            depend on the later ones -- this shares prefixes between inputs)
                 MStop      the list is exhausted
                 MNewFirst  `if current is None: current = LhCfPoseSample(ts)`
                 MFlush     `if ts > current.timestamp + max_time_diff: _append_result(...)`
                 MRenew     `current = LhCfPoseSample(ts)` after a flush
                 MPut       `current.angles_calibrated[bs] = angles`  (a dict: a later measurement of
                            the same base station replaces the earlier one, position in the dict kept)
                 MFinal     the `_append_result` after the loop
                 MReturn
     estimator   EAddSample/EStart  (mode "est": the environment builds the sample list)
                 EFeed      (mode "pipe": the matcher's result is the estimator's input)
                 EPoses(O)  _angles_to_poses: per sample the key set of its pose dict; O = samples the
                            numeric outlier test drops (environment choice)
                 ERef / ERefNone   first sample with a non-empty pose dict, its first key (= smallest id)
                 ERound     one pass of the `while remaining > 0` loop that finds something
                            (len(to_find) == remaining  <=>  the pass found nothing, because the buckets
                            only ever hold base stations of to_find)
                 ELinkDone / ELinkFail
                 ECf        _estimate_cf_poses: one pose per pose dict
                 EReturn

   Bug = "none" is the REPAIRED behaviour for samples with fewer than two base stations (they are
   left out by _angles_to_poses like outliers); Bug = "single_crash" is the code as found: such a
   sample gets an empty pose dict and _estimate_cf_poses dies in numpy (LinAlgError) on it.  The
   other Bug values are seeded defects (vacuity guards for the invariants).                     *)
EXTENDS Integers, Sequences, FiniteSets, TLC, Json

CONSTANTS Mode,          \* "match" | "est" | "pipe"
          BsIds,         \* base station ids
          MaxMeas,       \* matcher: length of the measurement list
          Deltas,        \* matcher: time stamp differences between consecutive measurements (ticks)
          Diffs,         \* matcher: values of max_time_diff (ticks)
          MinBs,         \* matcher: values of min_nr_of_bs_in_match
          MaxSamples,    \* estimator (mode "est"): length of the sample list
          SampleSets,    \* estimator (mode "est"): the base station sets a sample may have
          MaxOutliers,   \* estimator: how many samples the numeric outlier test may drop
          Bug,
          PrintCases     \* TRUE: print every finished case (input + outcome) for the harness

P == INSTANCE LhSkeletonProps

VARIABLES mode, pc,
          meas, d, minbs, cur, res, mout,                            \* matcher
          smp, kept, K, ref, known, allbs, rounds, ncf, eout         \* estimator

mvars == <<meas, d, minbs, cur, res, mout>>
evars == <<smp, kept, K, ref, known, allbs, rounds, ncf, eout>>
vars == <<mode, pc, meas, d, minbs, cur, res, mout, smp, kept, K, ref, known, allbs, rounds, ncf, eout>>

T0 == 1                  \* first time stamp (0 is "unknown" in recorded traces)
None == [some |-> FALSE, ts |-> 0, mem |-> <<>>]
New(t) == [some |-> TRUE, ts |-> t, mem |-> <<>>]
NoRef == [bs |-> 0, sample |-> 0]
Pending == [kind |-> "pending", bs |-> <<>>, ncf |-> 0, cleaned |-> <<>>, kept |-> <<>>,
            ref |-> NoRef, intact |-> TRUE]
MPending == [kind |-> "pending", groups |-> <<>>, intact |-> TRUE]

RECURSIVE AscSeq(_)
AscSeq(S) == IF S = {} THEN <<>> ELSE <<P!Min(S)>> \o AscSeq(S \ {P!Min(S)})

Init == /\ mode = Mode
        /\ pc = IF Mode = "est" THEN "e_setup" ELSE "m_iter"
        /\ meas = <<>> /\ cur = None /\ res = <<>> /\ mout = MPending
        /\ d \in (IF Mode = "est" THEN {0} ELSE Diffs)
        /\ minbs \in (IF Mode = "est" THEN {0} ELSE MinBs)
        /\ smp = <<>> /\ kept = <<>> /\ K = <<>> /\ ref = NoRef /\ known = {} /\ allbs = {}
        /\ rounds = <<>> /\ ncf = 0 /\ eout = Pending

(* ------------------------------------------------------------------ matcher *)
Sample == meas[Len(meas)]          \* the element the for loop is at
LastTs == IF meas = <<>> THEN T0 ELSE meas[Len(meas)].ts

Put(mem, b, i) == IF \E j \in DOMAIN mem : mem[j][1] = b
                  THEN [j \in DOMAIN mem |-> IF mem[j][1] = b THEN <<b, i>> ELSE mem[j]]
                  ELSE Append(mem, <<b, i>>)

Keep(c) == c.some /\ (IF Bug = "min_strict" THEN Len(c.mem) > minbs ELSE Len(c.mem) >= minbs)
AppendResult(r, c) == IF Keep(c) THEN Append(r, [ts |-> c.ts, mem |-> c.mem]) ELSE r

TooLate == CASE Bug = "ge_window" -> Sample.ts >= cur.ts + d
             [] Bug = "sliding" /\ Len(meas) >= 2 -> Sample.ts > meas[Len(meas) - 1].ts + d
             [] OTHER -> Sample.ts > cur.ts + d

MNext(dt, b) == /\ pc = "m_iter" /\ Len(meas) < MaxMeas
                /\ LastTs + dt >= T0
                /\ meas' = Append(meas, [ts |-> LastTs + dt, bs |-> b])
                /\ pc' = "m_body"
                /\ UNCHANGED <<mode, d, minbs, cur, res, mout>> /\ UNCHANGED evars

MStop == /\ pc = "m_iter" /\ pc' = "m_final"
         /\ UNCHANGED mode /\ UNCHANGED mvars /\ UNCHANGED evars

MNewFirst == /\ pc = "m_body" /\ ~cur.some
             /\ cur' = New(Sample.ts) /\ pc' = "m_win"
             /\ UNCHANGED <<mode, meas, d, minbs, res, mout>> /\ UNCHANGED evars

AtWin == pc = "m_win" \/ (pc = "m_body" /\ cur.some)

MFlush == /\ AtWin /\ TooLate
          /\ res' = AppendResult(res, cur) /\ pc' = "m_renew"
          /\ UNCHANGED <<mode, meas, d, minbs, cur, mout>> /\ UNCHANGED evars

MRenew == /\ pc = "m_renew"
          /\ cur' = New(Sample.ts) /\ pc' = "m_put"
          /\ UNCHANGED <<mode, meas, d, minbs, res, mout>> /\ UNCHANGED evars

MPut == /\ pc = "m_put" \/ (AtWin /\ ~TooLate)
        /\ cur' = [cur EXCEPT !.mem = Put(@, Sample.bs, Len(meas))]
        /\ pc' = "m_iter"
        /\ UNCHANGED <<mode, meas, d, minbs, res, mout>> /\ UNCHANGED evars

MFinal == /\ pc = "m_final"
          /\ res' = IF Bug = "no_final" THEN res ELSE AppendResult(res, cur)
          /\ pc' = "m_ret"
          /\ UNCHANGED <<mode, meas, d, minbs, cur, mout>> /\ UNCHANGED evars

MReturn == /\ pc = "m_ret"
           /\ mout' = [kind |-> "return", groups |-> res, intact |-> TRUE]
           /\ pc' = IF mode = "pipe" THEN "e_feed" ELSE "done"
           /\ (PrintCases /\ mode = "match") =>
                  PrintT("CASE " \o ToJson([mode |-> mode, meas |-> meas, d |-> d, minbs |-> minbs, groups |-> res]))
           /\ UNCHANGED <<mode, meas, d, minbs, cur, res>> /\ UNCHANGED evars

(* ------------------------------------------------------------------ estimator *)
EAddSample(S) == /\ pc = "e_setup" /\ Len(smp) < MaxSamples
                 /\ smp' = Append(smp, S)
                 /\ UNCHANGED <<mode, pc>> /\ UNCHANGED mvars
                 /\ UNCHANGED <<kept, K, ref, known, allbs, rounds, ncf, eout>>

EStart == /\ pc = "e_setup" /\ pc' = "e_poses"
          /\ UNCHANGED mode /\ UNCHANGED mvars /\ UNCHANGED evars

EFeed == /\ pc = "e_feed"
         /\ smp' = [k \in DOMAIN res |-> {res[k].mem[j][1] : j \in DOMAIN res[k].mem}]
         /\ pc' = "e_poses"
         /\ UNCHANGED mode /\ UNCHANGED mvars
         /\ UNCHANGED <<kept, K, ref, known, allbs, rounds, ncf, eout>>

Linking(k) == Cardinality(smp[k]) >= 2

EPoses(O) == /\ pc = "e_poses"
             /\ O \subseteq {k \in DOMAIN smp : Linking(k)} /\ Cardinality(O) <= MaxOutliers
             /\ LET usable == {k \in DOMAIN smp : k \notin O /\ (Bug = "single_crash" \/ Linking(k))}
                    ks == AscSeq(usable)
                IN  /\ kept' = ks
                    /\ K' = [j \in DOMAIN ks |-> IF Linking(ks[j]) THEN smp[ks[j]] ELSE {}]
             /\ pc' = "e_ref"
             /\ UNCHANGED mode /\ UNCHANGED mvars
             /\ UNCHANGED <<smp, ref, known, allbs, rounds, ncf, eout>>

Posed == {j \in DOMAIN K : K[j] # {}}
Raised(kind) == [Pending EXCEPT !.kind = kind, !.kept = kept, !.ref = ref]

\* "Too little data, no reference"
ERefNone == /\ pc = "e_ref" /\ Posed = {}
            /\ eout' = Raised("LhException") /\ pc' = "done"
            /\ (PrintCases) =>
                   PrintT("CASE " \o ToJson([mode |-> mode, meas |-> meas, d |-> d, minbs |-> minbs, groups |-> res,
                                             samples |-> smp, kind |-> "LhException", bs |-> {}, ncf |-> 0,
                                             cleaned |-> <<>>, ref |-> NoRef, rounds |-> <<>>]))
            /\ UNCHANGED mode /\ UNCHANGED mvars
            /\ UNCHANGED <<smp, kept, K, ref, known, allbs, rounds, ncf>>

ERef == /\ pc = "e_ref" /\ Posed # {}
        /\ LET j0 == IF Bug = "ref_last" THEN P!Max(Posed) ELSE P!Min(Posed)
               b0 == P!Min(K[j0])
           IN  /\ ref' = [bs |-> b0, sample |-> kept[j0]]
               /\ known' = {b0}
        /\ allbs' = UNION {K[j] : j \in DOMAIN K}
        /\ pc' = "e_link"
        /\ UNCHANGED mode /\ UNCHANGED mvars
        /\ UNCHANGED <<smp, kept, K, rounds, ncf, eout>>

ToFind == allbs \ known
Helpful == {j \in DOMAIN K : K[j] \cap known # {}}       \* samples with at least one known base station
Found == [b \in {x \in ToFind : \E j \in Helpful : x \in K[j]} |->
              Cardinality({j \in Helpful : b \in K[j]})]  \* bucket sizes of this pass

FoundSeq == LET bs == AscSeq(DOMAIN Found) IN [i \in DOMAIN bs |-> <<bs[i], Found[bs[i]]>>]

ERound == /\ pc = "e_link" /\ ToFind # {} /\ DOMAIN Found # {}
          /\ known' = known \cup DOMAIN Found
          /\ rounds' = Append(rounds, FoundSeq)
          /\ IF Bug = "eager_raise" /\ allbs \ known' # {}
             THEN eout' = Raised("LhException") /\ pc' = "e_ret"
             ELSE UNCHANGED <<eout, pc>>
          /\ UNCHANGED mode /\ UNCHANGED mvars
          /\ UNCHANGED <<smp, kept, K, ref, allbs, ncf>>

ELinkDone == /\ pc = "e_link" /\ ToFind = {}
             /\ pc' = "e_cf"
             /\ UNCHANGED mode /\ UNCHANGED mvars /\ UNCHANGED evars

\* "Can not link positions between all base stations"
ELinkFail == /\ pc = "e_link" /\ ToFind # {} /\ DOMAIN Found = {}
             /\ IF Bug = "no_progress_check"
                THEN pc' = "e_cf" /\ UNCHANGED eout
                ELSE eout' = Raised("LhException") /\ pc' = "e_ret"
             /\ UNCHANGED mode /\ UNCHANGED mvars
             /\ UNCHANGED <<smp, kept, K, ref, known, allbs, rounds, ncf>>

ECf == /\ pc = "e_cf"
       /\ IF Bug = "single_crash" /\ \E j \in DOMAIN K : K[j] = {}
          THEN eout' = Raised("other") /\ UNCHANGED ncf       \* numpy LinAlgError in _avarage_poses([])
          ELSE /\ ncf' = IF Bug = "cf_drop_first" /\ Len(K) > 1 THEN Len(K) - 1 ELSE Len(K)
               /\ UNCHANGED eout
       /\ pc' = "e_ret"
       /\ UNCHANGED mode /\ UNCHANGED mvars
       /\ UNCHANGED <<smp, kept, K, ref, known, allbs, rounds>>

EReturn == /\ pc = "e_ret"
           /\ eout' = IF eout.kind = "pending"
                      THEN [kind |-> "return", bs |-> AscSeq(known), ncf |-> ncf, cleaned |-> kept,
                            kept |-> kept, ref |-> ref, intact |-> TRUE]
                      ELSE eout
           /\ pc' = "done"
           /\ PrintCases =>
                  PrintT("CASE " \o ToJson([mode |-> mode, meas |-> meas, d |-> d, minbs |-> minbs, groups |-> res,
                                            samples |-> smp, kind |-> eout'.kind, bs |-> eout'.bs, ncf |-> eout'.ncf,
                                            cleaned |-> eout'.cleaned, ref |-> ref, rounds |-> rounds]))
           /\ UNCHANGED mode /\ UNCHANGED mvars
           /\ UNCHANGED <<smp, kept, K, ref, known, allbs, rounds, ncf>>

Next == \/ \E dt \in Deltas, b \in BsIds : MNext(dt, b)
        \/ MStop \/ MNewFirst \/ MFlush \/ MRenew \/ MPut \/ MFinal \/ MReturn
        \/ \E S \in SampleSets : EAddSample(S)
        \/ EStart \/ EFeed
        \/ \E O \in SUBSET (DOMAIN smp) : EPoses(O)
        \/ ERefNone \/ ERef \/ ERound \/ ELinkDone \/ ELinkFail \/ ECf \/ EReturn

Spec == Init /\ [][Next]_vars

(* ------------------------------------------------------------------ properties (X03) *)
MatchOK == mout.kind # "pending" => P!MatchOK(meas, d, minbs, mout)
EstOK == (pc = "done" /\ eout.kind # "pending") => P!EstOK(smp, eout)
\* composition: with min_nr_of_bs_in_match >= 2 every sample handed to the estimator links base stations
PipeMin2AllLinking == (mode = "pipe" /\ minbs >= 2 /\ pc \notin {"m_iter", "m_body", "m_win", "m_renew", "m_put",
                                                               "m_final", "m_ret", "e_feed"})
                          => \A k \in DOMAIN smp : Linking(k)
\* the closure loop only ever learns base stations of the samples, and never forgets the reference
LinkMonotone == (pc \in {"e_link", "e_cf", "e_ret"}) => (ref.bs \in known /\ known \subseteq allbs)
TypeOK == /\ pc \in {"m_iter", "m_body", "m_win", "m_renew", "m_put", "m_final", "m_ret",
                     "e_setup", "e_feed", "e_poses", "e_ref", "e_link", "e_cf", "e_ret", "done"}
          /\ mout.kind \in {"pending", "return"}
          /\ eout.kind \in {"pending", "return", "LhException", "other"}
          /\ cur.some \in BOOLEAN
=============================================================================
