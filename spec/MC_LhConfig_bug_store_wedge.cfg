SPECIFICATION Spec
CONSTANTS
  NCH = 2
  NBS = 2
  Menu <- MenuQuick
  Follow <- FollowQuick
  ReadData <- ReadDataQuick
  MaxReq = 3
  Bugs <- BugsStoreWedge
INVARIANT MonitorOK
INVARIANT CompletesWhenQuiescent
INVARIANT TypeOK
INVARIANT SlotsAgree
VIEW View
CHECK_DEADLOCK FALSE
