SPECIFICATION Spec
CONSTANTS
  Cfg0 <- CfgA
  Users = {1, 2}
  Ops <- OpsQuick
  MaxOps = 3
  Notifs <- NotifsA
  MaxNotif = 0
  MaxDup = 0
  DistinctPatterns = FALSE
  Bug = "none"
  OneQueryPerCmd = FALSE
INVARIANT TypeOK
INVARIANT CallsOK
INVARIANT WireOK
INVARIANT RxOK
INVARIANT GetOK
INVARIANT FinalOK
INVARIANT EndOK
INVARIANT NoWedge
CHECK_DEADLOCK FALSE
