SPECIFICATION Spec
CONSTANTS
  NCH = 3
  NBS = 3
  Menu <- MenuThorough
  Follow <- FollowThorough
  ReadData <- ReadDataThorough
  MaxReq = 3
  Bugs <- BugsNone
INVARIANT MonitorOK
INVARIANT CompletesWhenQuiescent
INVARIANT TypeOK
INVARIANT SlotsAgree
VIEW View
CHECK_DEADLOCK FALSE
