SPECIFICATION Spec
CONSTANTS
  NCH = 2
  NBS = 2
  Menu <- MenuThorough
  Follow <- FollowThorough
  ReadData <- ReadDataQuick
  MaxReq = 3
  Bugs <- BugsNone
INVARIANT MonitorOK
INVARIANT CompletesWhenQuiescent
INVARIANT TypeOK
INVARIANT SlotsAgree
VIEW View
CHECK_DEADLOCK FALSE
