------------------------------ MODULE FlashProps ------------------------------
(* C12 -- the listed property, over observable history only (no VARIABLES).

   What is observable (properties.jsonl, observe_at): the packets a simulated bootloader target
   receives, the replies the loader gets, whether the flashing call returned or raised, and the
   target's resulting flash.

     G      geometry record [tgt, ps, bp, fp, start]: target address byte, page size, number of
            buffer pages, number of flash pages, and the page the image has to start at (the
            target's start page, or the override page given by the caller)
     img    the image, Seq(0..255)
     d      payload of one CRTP packet on port 15 / channel 3 (header byte 0xFF), Seq(0..255)
     flash  the target's flash at the end: function  touched page -> Seq(0..255) of length ps

   Wire layout (source: Bitcraze bootloader protocol, "crazyflie2-stm-bootloader" / nrf
   bootloader command set as I remember it; independent of cloader.py's struct strings):
     LOAD_BUFFER  <<tgt, 0x14, page lo, page hi, addr lo, addr hi, data ...>>
     WRITE_FLASH  <<tgt, 0x18, bufpage lo, hi, flashpage lo, hi, npages lo, hi>>
     its reply    <<tgt, 0x18, done (1 = written), error code>>

   The observer H (a record) is the history reduced to what the clauses need.  It is updated by
   ObsTx / ObsRx / ObsRet; H.clause is "ok" or the name of the FIRST failing clause.

   Readings (DESIGN 3.1 and the report of C12):
   * bytes of the last flash page beyond the end of the image are unspecified (3.1(8));
   * "touching": judged on write-flash commands the target RECEIVES and on its resulting flash;
   * "bounded number of times": at most MaxAttempts = 6 transmissions of one write command (the
     property's anchor says "up to 6 attempts"); zero retries are "bounded" too (a negative
     reply is not retried by the code and the text does not demand it);
   * "fails or goes unanswered": the write command's group (consecutive transmissions of the same
     command, no buffer upload in between) contains no transmission that was answered
     positively; then nothing more may be uploaded or written and the call must raise;
   * "refused": the call raises and the target has received no write-flash command;
   * without any lost or negative reply a fitting image must be flashed completely. *)
EXTENDS Integers, Sequences, FiniteSets

MaxData     == 31      \* header byte + 31 = the 32-byte radio frame
MaxAttempts == 6
CmdLoad     == 20      \* 0x14
CmdWrite    == 24      \* 0x18

U16(d, k) == d[k] + 256 * d[k + 1]
Last(s)   == s[Len(s)]
First(a, b) == IF a # "ok" THEN a ELSE b

IsLoad(d)       == Len(d) >= 6 /\ d[2] = CmdLoad
IsWrite(d)      == Len(d) >= 8 /\ d[2] = CmdWrite
IsWriteReply(d) == Len(d) >= 3 /\ d[2] = CmdWrite
LoadOf(d)  == [tgt |-> d[1], page |-> U16(d, 3), addr |-> U16(d, 5), bytes |-> SubSeq(d, 7, Len(d))]
WriteOf(d) == [tgt |-> d[1], buf |-> U16(d, 3), page |-> U16(d, 5), count |-> U16(d, 7)]

\* ---- geometry ----
NPages(G, n)     == (n + G.ps - 1) \div G.ps
Fits(G, n)       == n <= (G.fp - G.start) * G.ps
InImage(G, n, p) == p >= G.start /\ p < G.start + NPages(G, n)
\* number of image bytes that belong to flash page p
BytesIn(G, n, p) == IF ~InImage(G, n, p) THEN 0
                    ELSE IF (p - G.start + 1) * G.ps <= n THEN G.ps
                    ELSE n - (p - G.start) * G.ps
\* image byte that belongs at offset o (1-based) of flash page p
ImgAt(G, img, p, o) == img[(p - G.start) * G.ps + o]

\* ---- clauses on one buffer-upload message (m = LoadOf(d), rawlen = Len(d)) ----
LoadClause(G, m, rawlen) ==
    IF rawlen > MaxData THEN "FrameTooLong"
    ELSE IF m.tgt # G.tgt THEN "WrongTarget"
    ELSE IF m.page >= G.bp \/ m.addr + Len(m.bytes) > G.ps THEN "UploadOutsideBuffer"
    ELSE "ok"

\* ---- the uploads of the current fill round cover the image bytes of one page exactly once ----
\* loads: the decoded upload messages since the last write command; b: buffer page; p: the flash
\* page it is written to
CoverClause(G, img, loads, b, p) ==
    LET L == SelectSeq(loads, LAMBDA m : m.page = b)
        C(o) == {j \in DOMAIN L : L[j].addr < o /\ o <= L[j].addr + Len(L[j].bytes)}   \* o 1-based
        n == BytesIn(G, Len(img), p)
    IN  IF \E o \in 1..n : Cardinality(C(o)) # 1 THEN "CoverNotOnce"
        ELSE IF \E o \in 1..n : LET j == CHOOSE j \in C(o) : TRUE
                                IN L[j].bytes[o - L[j].addr] # ImgAt(G, img, p, o)
             THEN "WrongByte"
        ELSE "ok"

\* ---- clauses on one write-flash command received by the target ----
WriteClause(G, img, loads, w) ==
    LET n == Len(img) IN
    IF w.tgt # G.tgt THEN "WrongTarget"
    ELSE IF ~Fits(G, n) THEN "WroteBeforeRefusal"
    ELSE IF \E k \in 0..(w.count - 1) : ~InImage(G, n, w.page + k) \/ w.page + k >= G.fp
         THEN "TouchedOutside"
    ELSE IF w.buf + w.count > G.bp THEN "WriteOutsideBuffer"
    ELSE LET F[k \in 0..w.count] ==
                 IF k = 0 THEN "ok"
                 ELSE First(F[k - 1], CoverClause(G, img, loads, w.buf + k - 1, w.page + k - 1))
         IN F[w.count]

\* ---- the observer ----
H0 == [loads  |-> <<>>,     \* upload messages of the current fill round (decoded)
       grp    |-> <<>>,     \* payload of the write command of the current group, <<>> = none
       outs   |-> <<>>,     \* what the loader got for each transmission: "pending" | "ok" | "nack"
       nrecv  |-> 0,        \* write commands received by the target
       faults |-> FALSE,    \* some transmission of a write command was not answered positively
       clause |-> "ok"]

GroupFailed(h) == h.grp # <<>> /\ \A k \in DOMAIN h.outs : h.outs[k] # "ok"
Unanswered(h)  == h.grp # <<>> /\ Last(h.outs) # "ok"

\* the loader transmits a packet; recv = the target receives it
ObsTx(h, G, img, d, recv) ==
    IF IsLoad(d) THEN
        LET m == LoadOf(d)
            c == IF GroupFailed(h) THEN "ContinuedAfterFailedWrite" ELSE LoadClause(G, m, Len(d))
        IN [h EXCEPT !.loads = IF h.grp # <<>> THEN <<m>> ELSE Append(@, m),
                     !.faults = @ \/ Unanswered(h),
                     !.grp = <<>>, !.outs = <<>>,
                     !.clause = First(@, c)]
    ELSE IF IsWrite(d) THEN
        LET same == d = h.grp
            c1 == IF same THEN (IF Len(h.outs) >= MaxAttempts THEN "RetryUnbounded" ELSE "ok")
                  ELSE IF GroupFailed(h) THEN "ContinuedAfterFailedWrite" ELSE "ok"
            c2 == IF recv THEN WriteClause(G, img, h.loads, WriteOf(d)) ELSE "ok"
        IN [h EXCEPT !.grp = d,
                     !.outs = IF same THEN Append(@, "pending") ELSE <<"pending">>,
                     !.faults = @ \/ Unanswered(h),
                     !.nrecv = IF recv THEN @ + 1 ELSE @,
                     !.clause = First(@, First(c1, c2))]
    ELSE h

\* the loader is handed a packet
ObsRx(h, d) ==
    IF h.grp # <<>> /\ Last(h.outs) = "pending" /\ IsWriteReply(d) /\ d[1] = h.grp[1]
    THEN [h EXCEPT !.outs[Len(h.outs)] = IF d[3] = 1 THEN "ok" ELSE "nack"]
    ELSE h

\* the flashing call ends: result = "ok" (returned) | "raised"; flash = the target's flash
EndClause(h, G, img, result, flash) ==
    LET n == Len(img)
        faults == h.faults \/ Unanswered(h)
    IN  IF ~Fits(G, n) THEN
            (IF result = "ok" THEN "NotRefused"
             ELSE IF h.nrecv > 0 \/ DOMAIN flash # {} THEN "WroteBeforeRefusal"
             ELSE "ok")
        ELSE IF GroupFailed(h) /\ result = "ok" THEN "SilentFailure"
        ELSE IF \E p \in DOMAIN flash : ~InImage(G, n, p) \/ p >= G.fp THEN "TouchedOutside"
        ELSE IF \E p \in DOMAIN flash : \E o \in 1..BytesIn(G, n, p) : flash[p][o] # ImgAt(G, img, p, o)
             THEN "WrongBytes"
        ELSE IF result = "ok" /\ \E p \in G.start..(G.start + NPages(G, n) - 1) : p \notin DOMAIN flash
             THEN "ImageNotWritten"
        ELSE IF result # "ok" /\ ~faults THEN "FailedWithoutFault"
        ELSE "ok"

ObsRet(h, G, img, result, flash) ==
    [h EXCEPT !.faults = @ \/ Unanswered(h),
              !.clause = First(@, EndClause(h, G, img, result, flash))]
=============================================================================
