------------------------------ MODULE FlashTrace ------------------------------
(* Trace spec for C12.  One TLC run judges a whole batch of traces recorded from the real
   Bootloader._internal_flash / Cloader talking to the simulated bootloader target.

   A trace object:  id, tgt, ps, bp, fp, tsp (target's start page), ovr (<<>> or <<page>>),
   image (Seq(0..255)), ev (events), flash (<< <<page, bytes>>, ... >> = the simulated target's
   flash at the end), returned (the call came back before the virtual horizon).
   Events:  [e |-> "call"]                              _internal_flash entered
            [e |-> "tx", data, recv, fate, ctr, i]      packet handed to the link; recv: the target
                                                        receives it; ctr, i: the loader's locals
            [e |-> "rx", data]                          receive_packet returned a packet
            [e |-> "poll"] / [e |-> "timeout"]          receive_packet(0) / (>0) returned None
            [e |-> "ret", result]                       "ok" (returned) | "raised"

   monitor  (the verdict): mh is the FlashProps observer fed with the events and the recorded
            final flash; nothing of the design spec is assumed.
   conform  (the binding): the same events must be explained, one action per event, by Flash
            (Bug = "none", real chunk size 25); conf = FALSE from the first event it cannot take. *)
EXTENDS Integers, Sequences, FiniteSets, TLC, Json, IOUtils

Traces == JsonDeserialize(IOEnv.TRACE_FILE)

VARIABLES tid, l,
          mh, badAt,                 \* monitor
          conf, confAt,              \* conformance verdict
          tgt, ps, bp, fp, tsp, ovr, img, pc, i, ctr, pos, addr, site, retry, result,
          rxq, buf, flash, msg, h    \* design-spec variables

T == Traces[tid]
Chunk == 25
MaxRetry == 5
Targets == {255, 254}
PageSizes == {1}
BufCounts == {1}
FlashSizes == {1}
MaxLen == 1
Fates == {"ok", "okdup", "nack", "lostcmd", "lostreply", "stray"}
Bug == "none"
Observe == FALSE

D == INSTANCE Flash
P == INSTANCE FlashProps

specvars == <<tgt, ps, bp, fp, tsp, ovr, img, pc, i, ctr, pos, addr, site, retry, result,
              rxq, buf, flash, msg, h>>
Ev == T.ev[l]

MG == [tgt |-> T.tgt, ps |-> T.ps, bp |-> T.bp, fp |-> T.fp,
       start |-> IF Len(T.ovr) > 0 THEN T.ovr[1] ELSE T.tsp]
\* the simulated target's resulting flash: touched page -> bytes
TFlash == LET idx == DOMAIN T.flash
          IN [p \in {T.flash[k][1] : k \in idx} |->
                 T.flash[CHOOSE k \in idx : T.flash[k][1] = p][2]]

Init == /\ tid \in 1..Len(Traces)
        /\ l = 1
        /\ mh = P!H0 /\ badAt = 0
        /\ conf = TRUE /\ confAt = 0
        /\ tgt = Traces[tid].tgt /\ ps = Traces[tid].ps /\ bp = Traces[tid].bp
        /\ fp = Traces[tid].fp /\ tsp = Traces[tid].tsp
        /\ ovr = IF Len(Traces[tid].ovr) > 0 THEN Traces[tid].ovr[1] ELSE 0 - 1
        /\ img = Traces[tid].image
        /\ pc = "call"
        /\ i = 0 /\ ctr = 0 /\ pos = 0 /\ addr = 0 /\ site = "loop" /\ retry = 0 /\ result = "none"
        /\ rxq = <<>>
        /\ buf = [b \in 0..(Traces[tid].bp - 1) |-> [o \in 1..Traces[tid].ps |-> 0]]
        /\ flash = <<>>
        /\ msg = <<>>
        /\ h = P!H0

Conform(A) == IF conf /\ ENABLED A
              THEN A /\ UNCHANGED <<conf, confAt>>
              ELSE /\ conf' = FALSE /\ confAt' = (IF conf THEN l ELSE confAt)
                   /\ UNCHANGED specvars

Mon(nh) == /\ mh' = nh
           /\ badAt' = IF mh.clause = "ok" /\ nh.clause # "ok" THEN l ELSE badAt

ECall == /\ Ev.e = "call"
         /\ Mon(mh)
         /\ Conform(D!Call)

ETx == /\ Ev.e = "tx"
       /\ Mon(P!ObsTx(mh, MG, T.image, Ev.data, Ev.recv))
       /\ IF P!IsWrite(Ev.data)
          THEN Conform(D!WfSend(Ev.fate) /\ msg' = Ev.data /\ ctr = Ev.ctr /\ i = Ev.i)
          ELSE Conform((D!SendChunk \/ D!SendTail) /\ msg' = Ev.data /\ ctr = Ev.ctr /\ i = Ev.i)

ERx == /\ Ev.e = "rx"
       /\ Mon(P!ObsRx(mh, Ev.data))
       /\ IF pc = "drain"
          THEN Conform(D!DrainOne /\ msg' = Ev.data)
          ELSE Conform(D!WfRecv /\ rxq # <<>> /\ msg' = Ev.data)

EPoll == /\ Ev.e = "poll"
         /\ Mon(mh)
         /\ Conform(D!DrainEnd)

ETimeout == /\ Ev.e = "timeout"
            /\ Mon(mh)
            /\ Conform(D!WfRecv /\ rxq = <<>>)

ERet == /\ Ev.e = "ret"
        /\ Mon(P!ObsRet(mh, MG, T.image, Ev.result, TFlash))
        /\ Conform(D!Return /\ result = Ev.result /\ flash = TFlash)

Step == /\ l <= Len(T.ev)
        /\ l' = l + 1 /\ UNCHANGED tid
        /\ (ECall \/ ETx \/ ERx \/ EPoll \/ ETimeout \/ ERet)

\* end of trace: the call must have come back, and its end must have been judged
Finish == /\ l = Len(T.ev) + 1
          /\ l' = l + 1
          /\ LET ended == Len(T.ev) > 0 /\ T.ev[Len(T.ev)].e = "ret"
                 b == IF mh.clause # "ok" THEN mh.clause
                      ELSE IF ~T.returned \/ ~ended THEN "NoReturn"
                      ELSE "ok"
             IN PrintT(<<"VERDICT", T.id, b, IF mh.clause # "ok" THEN badAt ELSE Len(T.ev), conf, confAt>>)
          /\ UNCHANGED <<tid, mh, badAt, conf, confAt, specvars>>

Next == Step \/ Finish
Spec == Init /\ [][Next]_<<tid, l, mh, badAt, conf, confAt, specvars>>
=============================================================================
