---- MODULE MC_Uri ----
EXTENDS Uri
\* hex digit symbols (case flag only meaningful for a..f)
Dg(d, up) == [d |-> d, up |-> up]
D3 == {Dg(0, FALSE), Dg(14, TRUE), Dg(10, FALSE)}                 \* 0 E a
D4 == D3 \cup {Dg(7, FALSE)}                                      \* 0 E a 7
D5 == D4 \cup {Dg(15, TRUE)}
SeqsUpTo(S, n) == UNION {[1..k -> S] : k \in 1..n}
\* longer addresses: first digit x then all y; alternating x y
Patterns(S, lens) == UNION {{[i \in 1..k |-> IF i = 1 THEN x ELSE y] : x \in S, y \in S}
                            \cup {[i \in 1..k |-> IF i % 2 = 1 THEN x ELSE y] : x \in S, y \in S} : k \in lens}
AddrQuick == SeqsUpTo(D3, 2) \cup Patterns(D3, {3, 5, 9, 10})
AddrThorough == SeqsUpTo(D4, 3) \cup Patterns(D3, 4..10)
AddrSim == SeqsUpTo(D5, 4) \cup Patterns(D5, 5..10)

E(nd, nusb, prrt, pyserial, serial) == [nd |-> nd, nusb |-> nusb, prrt |-> prrt, pyserial |-> pyserial, serial |-> serial]
EnvQuick == {E(2, 1, FALSE, FALSE, FALSE), E(2, 1, TRUE, TRUE, TRUE), E(0, 0, FALSE, FALSE, TRUE)}
EnvThorough == {E(2, 1, FALSE, FALSE, FALSE), E(3, 1, TRUE, TRUE, TRUE), E(1, 0, TRUE, FALSE, TRUE), E(0, 0, FALSE, FALSE, TRUE)}
EnvSim == {E(nd, nu, p, ps, s) : nd \in {0, 1, 3}, nu \in {0, 1}, p \in BOOLEAN, ps \in BOOLEAN, s \in BOOLEAN}

Dn(k, n) == [dk |-> k, dn |-> n]
DonglesQuick == {Dn("num", 0), Dn("num", 1), Dn("serial", 2)}
DonglesThorough == {Dn("num", 0), Dn("num", 1), Dn("num", 7), Dn("serial", 1), Dn("serial", 3)}
DonglesSim == DonglesThorough \cup {Dn("num", 2), Dn("serial", 2)}

AllSchemes == {"radio", "usb", "serial", "udp", "prrt", "tcp", "bogus"}
AllOps == {"parse", "claim", "lookup", "open", "scan"}
ChansSim == 0..125
RlQuick == {<<>>, <<100>>}
RlThorough == {<<>>, <<1>>, <<100>>}

ScanAddrsQuick == {<<>>, <<231, 231, 231, 231, 231>>, <<0, 0, 0, 0, 1>>, <<231, 231, 231, 231, 1>>}
ScanAddrsThorough == ScanAddrsQuick \cup {<<0, 0, 0, 0, 0>>, <<0, 10, 0, 0, 0>>, <<1, 2, 3, 4, 5>>, <<255, 255, 255, 255, 255>>}
Eff(a) == IF a = <<>> THEN <<231, 231, 231, 231, 231>> ELSE a
Rs(a, S) == {[chan |-> x[1], rate |-> x[2], addr |-> a] : x \in S}
Small(S, n) == {T \in SUBSET S : Cardinality(T) <= n}
\* Crazyflies in range: up to two on the scanned address, optionally one stray on another address of the
\* fleet: an unrelated one, or the neighbours of the scanned address that a mix-up of byte order / padding
\* would reach (bytes mirrored, bytes rotated by one)
Mirror(a) == [i \in 1..5 |-> a[6 - i]]
Rot(a) == [i \in 1..5 |-> a[(i % 5) + 1]]
Strays(a) == {{}, {[chan |-> 80, rate |-> 2, addr |-> <<1, 1, 1, 1, 1>>]}}
             \cup {{[chan |-> 40, rate |-> 1, addr |-> b]} : b \in {Mirror(Eff(a)), Rot(Eff(a))} \ {Eff(a)}}
RespFor(addrs, chans, n) ==
    UNION {{Rs(Eff(a), S) \cup stray : S \in Small(chans \X {0, 1, 2}, n), stray \in Strays(a)} : a \in addrs}
RespQuick == RespFor(ScanAddrsQuick, {0, 80, 125}, 1)
RespThorough == RespFor(ScanAddrsThorough, {0, 80, 125}, 2)
\* small constants for the Bug_* configurations (each must be refuted quickly)
EnvBug == {E(2, 1, TRUE, TRUE, TRUE)}
DonglesBug == {Dn("num", 0)}
AddrBug == SeqsUpTo(D3, 2)
RlNone == {<<>>}
====
