------------------------------ MODULE DispatchProps ------------------------------
(* C07 -- the listed property, over observable history only.

   A registration is identified by its callback id `who`; pat[who] is its pattern
   [port, pmask, chan, cmask].  A finished packet dispatch is a record
      [hdr    : 0..255,                 header byte of the packet
       before : Seq(who),               registrations (in registration order) at the start
       touched: SUBSET who,             registrations added or removed while it was dispatched
       calls  : Seq(who)]               callbacks invoked for this packet, in invocation order
   Reading fixed in DESIGN.md 3.1(2): a registration present throughout sees the packet
   exactly once; one added/removed during the dispatch at most once; order = registration
   order. *)
EXTENDS Naturals, Sequences, FiniteSets, Bitwise

PortOf(h) == (h \div 16) % 16
ChanOf(h) == h % 4

Matches(p, h) == /\ p.port = (PortOf(h) & p.pmask)
                 /\ p.chan = (ChanOf(h) & p.cmask)

Count(s, w) == Cardinality({i \in DOMAIN s : s[i] = w})
Range(s) == {s[i] : i \in DOMAIN s}

\* clause names are what a failing check reports
StableOnce(r, pat) ==
    \A w \in Range(r.before) \ r.touched :
        Matches(pat[w], r.hdr) => Count(r.calls, w) = 1
NoSpurious(r, pat) ==
    \A i \in DOMAIN r.calls :
        /\ Matches(pat[r.calls[i]], r.hdr)
        /\ r.calls[i] \in Range(r.before) \cup r.touched
TouchedAtMostOnce(r, pat) ==
    \A w \in r.touched : Count(r.calls, w) <= 1
NoDuplicates(r, pat) ==
    \A w \in Range(r.before) : Count(r.calls, w) <= 1
InOrder(r, pat) ==
    LET stable(w) == w \in Range(r.before) \ r.touched
    IN  SelectSeq(r.calls, stable) = SelectSeq(r.before, LAMBDA w : stable(w) /\ Matches(pat[w], r.hdr))

PacketClause(r, pat) ==
    IF ~NoSpurious(r, pat) THEN "NoSpurious"
    ELSE IF ~StableOnce(r, pat) THEN "StableOnce"
    ELSE IF ~NoDuplicates(r, pat) THEN "NoDuplicates"
    ELSE IF ~TouchedAtMostOnce(r, pat) THEN "TouchedAtMostOnce"
    ELSE IF ~InOrder(r, pat) THEN "InOrder"
    ELSE "ok"

PacketOK(r, pat) == PacketClause(r, pat) = "ok"
=============================================================================
