SPECIFICATION Spec
CONSTANTS
  Helper = "PHC"
  Mode = "with"
  Prims <- HlThorough
  MaxLen = 8
  DH = 500
  DV = 500
  DL = 0
  Period = 200
  Bug = "none"
INVARIANT NoViolation
INVARIANT Ended
CHECK_DEADLOCK FALSE
INVARIANT PosTracks
