SPECIFICATION Spec
CONSTANTS
  Kinds = {"usb", "tcp", "udp", "radio"}
  CbModes = {TRUE, FALSE}
  SlModes = {TRUE}
  Bug = "none"
  Faults = {"none", "f1", "f2"}
  MaxOps = 3
  MaxSess = 2
  MaxReq = 2
  MaxIdle = 1
  MaxErr = 2
  HsMax = 2
  Retries = 2
  JamLen = 3
  KeepHistory = TRUE
INVARIANT HistoryOK
INVARIANT FoldAgrees
INVARIANT MonitorAgrees
INVARIANT TypeOK
CHECK_DEADLOCK FALSE
