------------------------------ MODULE DriverCloseProps ------------------------------
(* C10, the clauses about CLOSED links, at the level of one link-driver OBJECT
   (cflib/crtp/usbdriver.py, radiodriver.py, tcpdriver.py, udpdriver.py):

      "... nothing is ever transmitted on a closed link, and a request from one session is
       never transmitted in a later session."

   Observable history of one driver object = sequence of events [e, a]:
      connb  a = 0       connect() is called on the object
      conn   a = 1 | 0   connect() returned (1) / raised (0)
      closeb a = 0       close() is called
      close  a = 1 | 0   close() returned normally (1) / raised (0)
      send   a = r       send_packet() is called with request r (r = 1, 2, 3, ... in call order)
      wr     a = r | 0   the DEVICE took a write: the frame carries request r, or is a frame of the
                         driver's own (null packet, safelink handshake, connect / disconnect message)
   every other event name (sent, og, lerr, unplug, jam, rx, ...) is not part of the property.

   Reading (the weaker one wherever the text leaves room, DESIGN 3.1):
   * a link is CLOSED from the moment a close() has returned normally until the next connect() is
     called on that object.  When close() raises, or after a connect() that raised, the state of
     the link is not defined by the property and nothing is claimed until the next close().
   * a SESSION begins when a connect() returns normally.  A request belongs to the session during
     (or after the end of) which the application handed it to the object; a request handed to an
     object that has never been connected belongs to no session.
   * "transmitted" = the device took the write.  A write that the device refused (unplugged) is
     not a transmission.  Control transfers that configure the device are not transmissions. *)
EXTENDS Naturals, Sequences, FiniteSets

E(e, a) == [e |-> e, a |-> a]

\* ---- monitor state: st = where the object is in its life, sess = sessions begun so far,
\*      born[r] = the session count when request r was handed over
M0 == [st |-> "fresh", sess |-> 0, born |-> <<>>]

MonStep(m, ev) ==
    CASE ev.e = "connb" -> [m EXCEPT !.st = IF m.st = "closed" THEN "reopening" ELSE m.st]
      [] ev.e = "conn" /\ ev.a = 1 -> [m EXCEPT !.st = "open", !.sess = m.sess + 1]
      [] ev.e = "conn" /\ ev.a # 1 -> [m EXCEPT !.st = IF m.st = "reopening" THEN "undefined" ELSE m.st]
      [] ev.e = "close" /\ ev.a = 1 -> [m EXCEPT !.st = "closed"]
      [] ev.e = "close" /\ ev.a # 1 -> [m EXCEPT !.st = "undefined"]
      [] ev.e = "send" -> [m EXCEPT !.born = Append(m.born, m.sess)]
      [] OTHER -> m

\* the clause a single event violates in monitor state m ("ok" if none)
EvClause(m, ev) ==
    IF ev.e = "send" /\ ev.a # Len(m.born) + 1 THEN "MalformedTrace"
    ELSE IF ev.e # "wr" THEN "ok"
    ELSE IF m.st = "closed" THEN "ClosedSilent"
    ELSE IF ev.a = 0 THEN "ok"
    ELSE IF ev.a > Len(m.born) THEN "MalformedTrace"
    ELSE IF m.born[ev.a] = 0 THEN "ok"
    ELSE IF m.st = "reopening" THEN "NoCrossSession"
    ELSE IF m.st = "open" /\ m.born[ev.a] < m.sess THEN "NoCrossSession"
    ELSE "ok"

\* whole history: first failing clause
Fold(h) ==
    LET F[i \in 0..Len(h)] ==
          IF i = 0 THEN [m |-> M0, c |-> "ok"]
          ELSE LET p == F[i - 1] IN
               [m |-> MonStep(p.m, h[i]),
                c |-> IF p.c # "ok" THEN p.c ELSE EvClause(p.m, h[i])]
    IN F[Len(h)]
HistoryClause(h) == Fold(h).c

\* ---- the same two clauses, stated directly over positions of the history (no monitor state);
\*      DriverClose.tla checks that both formulations agree on every reachable history
Closes(h, j)  == h[j].e = "close" /\ h[j].a = 1
ClosedAt(h, i) == \E j \in 1..(i - 1) : /\ Closes(h, j)
                                        /\ \A k \in (j + 1)..(i - 1) : h[k].e \notin {"connb", "close"}
ClosedSilent(h) == \A i \in DOMAIN h : h[i].e = "wr" => ~ClosedAt(h, i)

SessAt(h, i) == Cardinality({j \in 1..(i - 1) : h[j].e = "conn" /\ h[j].a = 1})
SendPos(h, r) == CHOOSE j \in DOMAIN h : h[j].e = "send" /\ h[j].a = r
\* a connect() is in progress at position i, and it was called on a closed link
ReopeningAt(h, i) == \E j \in 1..(i - 1) : /\ h[j].e = "connb" /\ ClosedAt(h, j)
                                           /\ \A k \in (j + 1)..(i - 1) : h[k].e \notin {"conn", "close"}
\* the link is in a session at position i (last life-cycle event: a connect that returned, or a
\* connect attempt on the open link)
OpenAt(h, i) == \E j \in 1..(i - 1) : /\ h[j].e = "conn" /\ h[j].a = 1
                                      /\ \A k \in (j + 1)..(i - 1) :
                                            /\ h[k].e # "close"
                                            /\ ~(h[k].e = "conn" /\ h[k].a = 1)
NoCrossSession(h) ==
    \A i \in DOMAIN h :
        (h[i].e = "wr" /\ h[i].a # 0 /\ \E j \in 1..(i - 1) : h[j].e = "send" /\ h[j].a = h[i].a) =>
            LET b == SessAt(h, SendPos(h, h[i].a)) IN
            b = 0 \/ ( /\ ~ReopeningAt(h, i)
                       /\ (OpenAt(h, i) => b = SessAt(h, i)) )
=============================================================================
