SPECIFICATION Spec
CONSTANTS
  Chunk = 25
  MaxRetry = 5
  Targets = {254}
  PageSizes = {25, 26, 51}
  BufCounts = {1, 2}
  FlashSizes = {2, 3}
  MaxLen = 160
  Fates = {"ok"}
  Bug = "chunk26"
  Observe = TRUE
INVARIANT PropOK
CHECK_DEADLOCK FALSE
