------------------------------ MODULE ParamProtoProps ------------------------------
(* C04 -- the listed property over observable history only (no VARIABLES).

   PART 1  typed values on the wire (own layout table, sources below)
   PART 2  the protocol clauses over the recorded history

   Parameter configuration  cfg == [np, type, ro, pers, group, init, updcbs]
     type[p]   firmware type byte, low nibble  [fw param.h: size = 2^(t%4) bytes, bit 2 = float,
               bit 3 = unsigned; tools/crtp-dissector.lua get_param_types gives the same table:
               0 INT8, 1 INT16, 2 INT32, 8 UINT8, 9 UINT16, 10 UINT32, 6 FLOAT] (3/11 = 64 bit, 7 double)
     ro[p], pers[p] (extended type "persistent"), group[p], init[p] (bytes the device held when
     the connection was complete), updcbs = sequence of [id, scope "param"|"group"|"all", ref, script, reg0]:
     the update callbacks of the run; reg0 = registered at the start; script = <<kind, target>> what the callback
     does when it runs: "nop" | "removeSelf" | "remove" target | "add" target (through the public API)
   Parameter p has wire index p-1 (16 bit little endian, V2 protocol  [dis: varid = le_uint 2 bytes]).
   p = 0 stands for a name that is not in the table.

   Value representations ("repr"; bytes are always Seq(0..255), least significant first):
     [k |-> "int",  neg, mag]   an integer, sign and magnitude bytes of any length
     [k |-> "f64",  b]          a real given as the 8 bytes of its IEEE-754 binary64 pattern
     [k |-> "raw",  b]          already the typed wire bytes
     [k |-> "none"] / [k |-> "bad"]   nothing there / not convertible

   History (all sequences in event order):
     calls  : [rid, u, k, p, v, exc, done]      API calls; k in set|read|store|clear|getstate|getdefault|get
     issued : [rid, chan, data]                 requests handed to the updater (the issue point)
     wire   : [chan, data, nans]                port-2 packets the device received; nans = number of
                                                answers the device had emitted before
     down   : [kind "ans"|"ntf"|"dup", chan, data, w] packets the device / link emitted (w = wire index answered;
                                                "dup" = a second copy of the answer to request w, delivered later)
     rxs    : [chan, data, upds, cbs, before]   packets the library dispatched, with what was invoked;
                                                before = update callbacks registered when the dispatch began
              upds : [cb, p, arg, cache, get, ops]  update callback cb called for parameter p; ops = the
                                                registrations it changed: <<"remove"|"add", id>>
              cbs  : [rid, pay]                 one-shot reply callback of request rid called
     gots   : [rid, p, val, nrx]                get_value results (nrx = packets dispatched before)
     ext    : (dev, lib)                        extended type the device answered / persistent mark in the library *)
EXTENDS Naturals, Sequences, FiniteSets

\* ------------------------------------------------------------------ PART 1: typed values
Width(t)    == CASE t % 4 = 0 -> 1 [] t % 4 = 1 -> 2 [] t % 4 = 2 -> 4 [] OTHER -> 8
IsFloat(t)  == (t \div 4) % 2 = 1
Unsigned(t) == (t \div 8) % 2 = 1
KnownType(t) == t \in {0, 1, 2, 3, 8, 9, 10, 11, 6, 7}

IdBytes(p) == <<(p - 1) % 256, (p - 1) \div 256>>
IdOf(b)    == b[1] + 256 * b[2] + 1                \* parameter of a 2-byte index

SubSeqSafe(s, a, b) == IF a > b \/ b > Len(s) THEN <<>> ELSE SubSeq(s, a, b)

ByteAt(m, i) == IF i <= Len(m) THEN m[i] ELSE 0
Pad(m, w)    == [i \in 1..w |-> ByteAt(m, i)]
IsZero(m)    == \A i \in DOMAIN m : m[i] = 0
FitsW(m, w)  == \A i \in DOMAIN m : i > w => m[i] = 0
LowZero(m, w) == \A i \in 1..(w - 1) : ByteAt(m, i) = 0

IntInRange(t, v) ==
    LET w == Width(t) IN
    IF Unsigned(t) THEN FitsW(v.mag, w) /\ (~v.neg \/ IsZero(v.mag))
    ELSE IF ~v.neg \/ IsZero(v.mag) THEN FitsW(v.mag, w) /\ ByteAt(v.mag, w) < 128
    ELSE FitsW(v.mag, w) /\ (ByteAt(v.mag, w) < 128 \/ (ByteAt(v.mag, w) = 128 /\ LowZero(v.mag, w)))

\* two's complement negation of w bytes
RECURSIVE CarryIn(_, _)
CarryIn(inv, i) == IF i = 1 THEN 1 ELSE IF inv[i - 1] + CarryIn(inv, i - 1) > 255 THEN 1 ELSE 0
Negate(bs) == LET inv == [i \in DOMAIN bs |-> 255 - bs[i]]
              IN [i \in DOMAIN bs |-> (inv[i] + CarryIn(inv, i)) % 256]

IntEncode(t, v) == IF v.neg /\ ~IsZero(v.mag) THEN Negate(Pad(v.mag, Width(t))) ELSE Pad(v.mag, Width(t))

\* ---- binary64 -> binary32, round to nearest even (IEEE 754; what a C cast and struct 'f' do)
Pow2(n) == CASE n = 0 -> 1 [] n = 1 -> 2 [] n = 2 -> 4 [] n = 3 -> 8 [] n = 4 -> 16 [] n = 5 -> 32
             [] n = 6 -> 64 [] n = 7 -> 128 [] n = 8 -> 256 [] n = 9 -> 512 [] n = 10 -> 1024
             [] n = 11 -> 2048 [] n = 12 -> 4096 [] n = 13 -> 8192 [] n = 14 -> 16384 [] n = 15 -> 32768
             [] n = 16 -> 65536 [] n = 17 -> 131072 [] n = 18 -> 262144 [] n = 19 -> 524288
             [] n = 20 -> 1048576 [] n = 21 -> 2097152 [] n = 22 -> 4194304 [] n = 23 -> 8388608
             [] n = 24 -> 16777216 [] n = 25 -> 33554432 [] n = 26 -> 67108864 [] n = 27 -> 134217728
             [] n = 28 -> 268435456 [] n = 29 -> 536870912 [] OTHER -> 1073741824
DSign(b) == b[8] \div 128
DExp(b)  == (b[8] % 128) * 16 + b[7] \div 16                                 \* biased, 0..2047
DHi(b)   == (b[7] % 16) * 524288 + b[6] * 2048 + b[5] * 8 + b[4] \div 32     \* top 23 mantissa bits
DLo(b)   == (b[4] % 32) * 16777216 + b[3] * 65536 + b[2] * 256 + b[1]        \* low 29 mantissa bits
DIsNaN(b) == DExp(b) = 2047 /\ (DHi(b) # 0 \/ DLo(b) # 0)
DIsInf(b) == DExp(b) = 2047 /\ DHi(b) = 0 /\ DLo(b) = 0

\* exponent|mantissa of the binary32 result as one 31-bit number; 2139095040 (= 255 * 2^23) and
\* above means the finite value is too large for binary32
F32Bits(b) ==
    LET e == DExp(b) hi == DHi(b) lo == DLo(b) IN
    IF e = 0 THEN 0                                  \* zero / binary64 subnormal: far below 2^-150
    ELSE IF e >= 1151 THEN 2139095040                \* unbiased >= 128: too large (TLC ints are 32 bit)
    ELSE IF e >= 897                                 \* unbiased >= -126: normal candidate
    THEN LET up == IF lo > 268435456 \/ (lo = 268435456 /\ hi % 2 = 1) THEN 1 ELSE 0
         IN (e - 896) * 8388608 + hi + up            \* a mantissa carry runs into the exponent
    ELSE LET k == 897 - e IN                         \* shift of the 24-bit significand
         IF k > 24 THEN 0
         ELSE LET sig == 8388608 + hi
                  q == sig \div Pow2(k)  r == sig % Pow2(k)  half == Pow2(k - 1)
                  up == IF r > half \/ (r = half /\ lo > 0) \/ (r = half /\ lo = 0 /\ q % 2 = 1)
                        THEN 1 ELSE 0
              IN q + up
F32Overflows(b) == ~DIsNaN(b) /\ ~DIsInf(b) /\ F32Bits(b) >= 2139095040
F32Bytes(b) == LET r == IF DIsInf(b) THEN 2139095040 ELSE F32Bits(b) IN
               <<r % 256, (r \div 256) % 256, (r \div 65536) % 256, r \div 16777216 + 128 * DSign(b)>>
F32IsNaN(x) == Len(x) = 4 /\ (x[4] % 128) * 2 + x[3] \div 128 = 255 /\ (x[3] % 128 # 0 \/ x[2] # 0 \/ x[1] # 0)

\* can the requested value v be set on a parameter of type t at all?
Accepts(t, v) ==
    CASE v.k = "int" -> IF IsFloat(t) THEN FALSE ELSE IntInRange(t, v)
      [] v.k = "f64" -> IF ~IsFloat(t) THEN FALSE ELSE (Width(t) = 8 \/ ~F32Overflows(v.b))
      [] v.k = "raw" -> Len(v.b) = Width(t)
      [] OTHER -> FALSE

\* the wire bytes of an accepted value (NaN: a canonical quiet NaN; compare with SameTyped)
Encode(t, v) ==
    CASE v.k = "int" -> IntEncode(t, v)
      [] v.k = "f64" -> IF Width(t) = 8 THEN v.b
                        ELSE IF DIsNaN(v.b) THEN <<0, 0, 192, 127 + 128 * DSign(v.b)>> ELSE F32Bytes(v.b)
      [] OTHER -> v.b

\* do the typed bytes x carry exactly the value v ?
SameTyped(t, v, x) ==
    /\ Len(x) = Width(t)
    /\ Accepts(t, v)
    /\ IF v.k = "f64" /\ DIsNaN(v.b)
       THEN IF Width(t) = 8 THEN DIsNaN(x) ELSE F32IsNaN(x)
       ELSE Encode(t, v) = x

\* ------------------------------------------------------------------ PART 2: protocol clauses
CmdOf(k) == CASE k = "store" -> 3 [] k = "getstate" -> 4 [] k = "clear" -> 5 [] k = "getdefault" -> 6
              [] OTHER -> 255          \* [fw param_logic.c MISC_* ; docs persistent parameters]
IsMisc(k) == k \in {"store", "clear", "getstate", "getdefault"}
Known(cfg, p) == p \in 1..cfg.np

IssuedOf(issued, rid) == {i \in DOMAIN issued : issued[i].rid = rid}

\* ---- one API call (evaluated when it has returned)
\* read-only or unknown target -> refused: nothing may be issued (how the refusal is signalled is not
\*    part of the property)
\* set, out of range (or not representable in the type) -> must raise, nothing issued
\* set, in range -> exactly one request on the write channel to the parameter's index, exact bytes
\* other requests -> if the call did not raise: exactly one request, right channel, command and index
CallClause(cfg, c, issued) ==
    LET mine == IssuedOf(issued, c.rid) IN
    IF ~c.done THEN "ok"
    ELSE IF c.k = "get" THEN "ok"
    ELSE IF ~Known(cfg, c.p) \/ (c.k = "set" /\ cfg.ro[c.p])
    THEN (IF mine # {} THEN "RefusedNoTransmission" ELSE "ok")
    ELSE IF c.k = "set" /\ ~Accepts(cfg.type[c.p], c.v)
    THEN IF c.exc = "" THEN "OutOfRangeMustRaise" ELSE IF mine # {} THEN "OutOfRangeNoTransmission" ELSE "ok"
    ELSE IF c.exc # ""
    THEN (IF c.k = "set" THEN "SetNotTransmitted" ELSE IF mine # {} THEN "RaisedButIssued" ELSE "ok")
    ELSE IF Cardinality(mine) # 1 THEN "OneRequestPerCall"
    ELSE LET r == issued[CHOOSE i \in mine : TRUE] IN
         CASE c.k = "set" ->
                IF r.chan # 2 \/ SubSeqSafe(r.data, 1, 2) # IdBytes(c.p) THEN "SetAddress"
                ELSE IF ~SameTyped(cfg.type[c.p], c.v, SubSeqSafe(r.data, 3, Len(r.data))) THEN "SetEncoding"
                ELSE "ok"
           [] c.k = "read" -> IF r.chan # 1 \/ r.data # IdBytes(c.p) THEN "ReadAddress" ELSE "ok"
           [] OTHER -> IF r.chan # 3 \/ r.data # <<CmdOf(c.k)>> \o IdBytes(c.p) THEN "MiscAddress" ELSE "ok"

\* ---- extended type replies (fetched while connecting): the library's "persistent" mark of a parameter
\* must be what the device answered to the extended-type request for THAT parameter
ExtClause(dev, lib) == IF lib # (dev = 1) THEN "ExtendedTypeNotDelivered" ELSE "ok"

\* ---- the wire: issue order, one outstanding at a time
WireClause(issued, wire) ==
    IF Len(wire) > Len(issued) THEN "WireNotIssued"
    ELSE IF \E i \in DOMAIN wire : wire[i].chan # issued[i].chan \/ wire[i].data # issued[i].data
    THEN "WireOrder"
    ELSE IF \E i \in DOMAIN wire : wire[i].nans # i - 1 THEN "OneOutstanding"
    ELSE "ok"

\* ---- one dispatched packet (evaluated when its dispatch is over); k = its position
\* the packet is down[k]; if it is an answer it answers wire[w] = issued[w]
ValueBearing(d) == \/ d.chan = 2 /\ Len(d.data) > 2
                   \/ d.chan = 1 /\ Len(d.data) > 3 /\ d.data[3] = 0
                   \/ d.chan = 3 /\ Len(d.data) > 3 /\ d.data[1] = 1
ValueParam(d) == IF d.chan = 3 THEN IdOf(SubSeq(d.data, 2, 3)) ELSE IdOf(SubSeq(d.data, 1, 2))
ValueBytes(d) == IF d.chan = 2 THEN SubSeq(d.data, 3, Len(d.data)) ELSE SubSeq(d.data, 4, Len(d.data))

Applies(cfg, cb, p) == \/ cb.scope = "all"
                       \/ cb.scope = "param" /\ cb.ref = p
                       \/ cb.scope = "group" /\ cb.ref = cfg.group[p]
CbById(cfg, id) == LET s == {i \in DOMAIN cfg.updcbs : cfg.updcbs[i].id = id}
                   IN IF s = {} THEN [id |-> id, scope |-> "none", ref |-> 0] ELSE cfg.updcbs[CHOOSE i \in s : TRUE]
CountUpd(r, id) == Cardinality({i \in DOMAIN r.upds : r.upds[i].cb = id})
\* registrations added or removed while the packet was dispatched (reading of C07, DESIGN 3.1(2): a callback
\* registered throughout is called exactly once per answer, one added or removed meanwhile at most once)
Touched(r) == UNION {{r.upds[i].ops[j][2] : j \in DOMAIN r.upds[i].ops} : i \in DOMAIN r.upds}
SeqRange(q) == {q[i] : i \in DOMAIN q}
CountCb(r, rid) == Cardinality({i \in DOMAIN r.cbs : r.cbs[i].rid = rid})

RxClause(cfg, k, r, down, issued, calls) ==
    IF k > Len(down) THEN "RxNotEmitted"
    ELSE LET d == down[k] IN
    IF r.chan # d.chan \/ r.data # d.data THEN "RxNotEmitted"
    ELSE IF d.kind = "ans" /\ d.w > Len(issued) THEN "WireNotIssued"
    ELSE LET isAns == d.kind = "ans"
             vb == ValueBearing(d) /\ Known(cfg, ValueParam(d))
             p == IF vb THEN ValueParam(d) ELSE 0
             x == IF vb THEN ValueBytes(d) ELSE <<>>
             req == IF isAns THEN issued[d.w] ELSE [rid |-> 0, chan |-> 0, data |-> <<>>]
             rc == IF isAns THEN calls[CHOOSE i \in DOMAIN calls : calls[i].rid = req.rid]
                   ELSE [rid |-> 0, k |-> "none", p |-> 0]
             wantCb == isAns /\ IsMisc(rc.k)
         IN
         \* a second copy of an answer that was already delivered: to nobody, nothing again
         IF d.kind = "dup" THEN (IF r.upds # <<>> \/ r.cbs # <<>> THEN "DuplicateDelivered" ELSE "ok")
         \* update callbacks: only for the parameter and value this packet carries
         ELSE IF \E i \in DOMAIN r.upds : \/ ~vb \/ r.upds[i].p # p \/ ~Applies(cfg, CbById(cfg, r.upds[i].cb), p)
                                          \/ r.upds[i].cb \notin SeqRange(r.before) \cup Touched(r)
         THEN "SpuriousUpdate"
         ELSE IF \E i \in DOMAIN r.upds : ~SameTyped(cfg.type[p], r.upds[i].arg, x) THEN "UpdateValue"
         ELSE IF isAns /\ vb /\ \E c \in SeqRange(r.before) \ Touched(r) :
                     Applies(cfg, CbById(cfg, c), p) /\ CountUpd(r, c) # 1
         THEN "UpdateOncePerAnswer"
         ELSE IF \E i \in DOMAIN cfg.updcbs : CountUpd(r, cfg.updcbs[i].id) > 1
         THEN "UpdateOncePerAnswer"
         ELSE IF isAns /\ vb /\ \E i \in DOMAIN r.upds :
                     ~SameTyped(cfg.type[p], r.upds[i].cache, x) \/ ~SameTyped(cfg.type[p], r.upds[i].get, x)
         THEN "CachedValue"
         \* one-shot reply callbacks: exactly the request this packet answers, once
         ELSE IF \E i \in DOMAIN r.cbs : ~wantCb \/ r.cbs[i].rid # req.rid THEN "ReplyToOtherRequest"
         ELSE IF wantCb /\ CountCb(r, req.rid) = 0 THEN "ReplyNotDelivered"
         ELSE IF wantCb /\ CountCb(r, req.rid) > 1 THEN "ReplyDeliveredTwice"
         ELSE "ok"

\* ---- get_value: the value of a packet for p dispatched at or after the last answer for p
\* (notifications in between may or may not have been applied -- the property does not say)
RECURSIVE LastAnswerFor(_, _, _, _)
LastAnswerFor(cfg, down, p, n) ==
    IF n = 0 THEN 0
    ELSE IF down[n].kind = "ans" /\ ValueBearing(down[n]) /\ ValueParam(down[n]) = p THEN n
    ELSE LastAnswerFor(cfg, down, p, n - 1)
FreshClause(cfg, p, val, down, n) ==       \* n = packets dispatched so far
    LET j == LastAnswerFor(cfg, down, p, n)
        cands == {m \in (IF j = 0 THEN 1 ELSE j)..n : down[m].kind # "dup" /\ ValueBearing(down[m]) /\ ValueParam(down[m]) = p}
    IN IF (j = 0 /\ SameTyped(cfg.type[p], val, cfg.init[p]))
          \/ \E m \in cands : SameTyped(cfg.type[p], val, ValueBytes(down[m]))
       THEN "ok" ELSE "StaleValue"

\* ---- end of a quiescent execution: everything issued was sent, answered and dispatched
EndClause(issued, wire, down, nrx) ==
    IF Len(wire) # Len(issued) THEN "RequestNeverSent"
    ELSE IF Cardinality({i \in DOMAIN down : down[i].kind = "ans"}) # Len(wire) THEN "RequestNeverAnswered"
    ELSE IF nrx # Len(down) THEN "ReplyNeverDispatched"
    ELSE "ok"

First(s) == IF \E i \in DOMAIN s : s[i] # "ok"
            THEN s[CHOOSE i \in DOMAIN s : s[i] # "ok" /\ \A j \in 1..(i - 1) : s[j] = "ok"] ELSE "ok"
=============================================================================
