------------------------------ MODULE Retry ------------------------------
(* Design spec of the request-retry mechanism of cflib.crazyflie.Crazyflie (C10):
   send_packet (application call: whole body under _send_lock, one action), the Timer threads
   (wait elapsed -> TFire; send_packet(resend=True) is two steps under _send_lock:
   TResendDecide = look at the link and at the pending patterns, re-arm; TResendTx = hand the
   packet to the link object -- the thread parks in Timer.start() in between, and close_link,
   _link_error_cb and open_link do not take _send_lock, so they interleave),
   _check_for_answers (AnswerBegin = snapshot of the patterns, longest matching prefix, cancel;
   AnswerEnd = delete the pattern: the dispatcher parks in Timer.cancel() in between),
   close_link, _link_error_cb, re-open.  Time in ms; Tick advances to the next deadline.

   Bug (pre-fix behaviours, each must be refuted):
     "resendAfterAnswer"   a resend whose pattern is no longer pending is still transmitted
     "timersSurviveClose"  close_link forgets the patterns without cancelling their timers
     "defaultTimeout"      a retry is re-armed with the default 200 ms instead of its own timeout
     "stalePatterns"       _link_error_cb leaves the pending patterns behind
     "noIdentity"          a resend only checks that *some* request is pending for its pattern
     "rereadLink"          send_packet reads self.link again for the transmission (a resend in
                           flight across close/error + open lands in the next session; with the
                           link gone the thread dies holding _send_lock)
     "rereadPatterns"      _check_for_answers deletes the matched pattern from self._answer_patterns
                           read again (after close + open + a new request for the same pattern it
                           deletes the new request's entry: that request is never retried)        *)
EXTENDS Naturals, Sequences, FiniteSets, TLC

CONSTANTS Pats,        \* sequence of patterns (each a sequence of numbers)
          Tmo,         \* sequence of timeouts (ms), same length
          Packets,     \* set of incoming packets (sequences)
          MaxTimers, MaxSess, MaxTime, MaxReqs, MaxAns, Reliable, Bug

P == INSTANCE RetryProps

PatIds == DOMAIN Pats
NoTimer == 0

VARIABLES link,        \* 0 = None, else the session number
          nsess,
          pending,     \* pattern id -> timer id | 0      (_answer_patterns)
          timers,      \* sequence of [st, dl, req, pat, sess, tmo]
          clock,
          sendLock,    \* 0 = free, else the timer id whose thread holds _send_lock
          chk,         \* dispatcher inside _check_for_answers: [on, pat, tm, gen] (pattern to delete)
          gen,         \* identity of the _answer_patterns dictionary (close / link error start a new one)
          reqs, wire, ans,  \* history (RetryProps)
          n

vars == <<link, nsess, pending, timers, clock, sendLock, chk, gen, reqs, wire, ans, n>>
NoChk == [on |-> FALSE, pat |-> 0, tm |-> 0, gen |-> 0]

Init == /\ link = 1 /\ nsess = 1
        /\ pending = [p \in PatIds |-> NoTimer]
        /\ timers = <<>>
        /\ clock = 0 /\ sendLock = 0 /\ chk = NoChk /\ gen = 1
        /\ reqs = <<>> /\ wire = <<>> /\ ans = <<>> /\ n = 0

Arm(req, p, sess, tmo) == [st |-> "armed", dl |-> clock + tmo, req |-> req, pat |-> p, sess |-> sess, tmo |-> tmo, lnk |-> 0, dn |-> 0]

\* application sends a request with expected reply p (at most one outstanding per pattern)
Send(p) ==
    /\ link # 0 /\ pending[p] = NoTimer /\ Len(reqs) < MaxReqs /\ sendLock = 0
    /\ ~\E r \in DOMAIN reqs : reqs[r].pat = Pats[p] /\ reqs[r].sess = link
    /\ reqs' = Append(reqs, [n |-> n + 1, sess |-> link, pat |-> Pats[p], tmo |-> Tmo[p], t |-> clock])
    /\ wire' = Append(wire, [n |-> n + 1, dn |-> n + 1, t |-> clock, sess |-> link, req |-> Len(reqs) + 1, first |-> TRUE])
    /\ n' = n + 1
    /\ IF Reliable THEN UNCHANGED <<pending, timers>>
       ELSE /\ Len(timers) < MaxTimers
            /\ timers' = Append(timers, Arm(Len(reqs) + 1, p, link, Tmo[p]))
            /\ pending' = [pending EXCEPT ![p] = Len(timers) + 1]
    /\ UNCHANGED <<link, nsess, clock, sendLock, chk, gen, ans>>

\* Timer thread: the wait elapsed and the timer was not cancelled
TFire(i) ==
    /\ i \in DOMAIN timers /\ timers[i].st = "armed" /\ clock >= timers[i].dl
    /\ timers' = [timers EXCEPT ![i].st = "fired"]
    /\ UNCHANGED <<link, nsess, pending, clock, sendLock, chk, gen, reqs, wire, ans, n>>

\* Timer thread: _no_answer_do_retry -> send_packet(resend=True): _send_lock acquired, the link
\* and the pending patterns looked at, the next timer armed; the thread then parks in
\* Timer.start() still holding the lock
TResendDecide(i) ==
    /\ i \in DOMAIN timers /\ timers[i].st = "fired" /\ sendLock = 0
    /\ LET tm == timers[i]
           \* the request is still the one registered for its pattern (a later session may have
           \* registered the same pattern for a new request)
           stillPending == /\ pending[tm.pat] # NoTimer
                           /\ (Bug = "noIdentity" \/ timers[pending[tm.pat]].req = tm.req)
           tmo == IF Bug = "defaultTimeout" THEN 200 ELSE tm.tmo
       IN
       IF link = 0
       THEN /\ timers' = [timers EXCEPT ![i].st = "done"] /\ UNCHANGED <<pending, sendLock>>
       ELSE IF stillPending
            THEN /\ Len(timers) < MaxTimers
                 /\ timers' = Append([timers EXCEPT ![i].st = "sending", ![i].lnk = link, ![i].dn = n + 1],
                                     Arm(tm.req, tm.pat, tm.sess, tmo))
                 /\ pending' = [pending EXCEPT ![tm.pat] = Len(timers) + 1]
                 /\ sendLock' = i
            ELSE IF Bug = "resendAfterAnswer"
                 THEN /\ timers' = [timers EXCEPT ![i].st = "sending", ![i].lnk = link, ![i].dn = n + 1]
                      /\ sendLock' = i /\ UNCHANGED pending
                 ELSE /\ timers' = [timers EXCEPT ![i].st = "done"]
                      /\ UNCHANGED <<pending, sendLock>>
    /\ n' = IF timers'[i].st = "sending" THEN n + 1 ELSE n
    /\ UNCHANGED <<link, nsess, clock, chk, gen, reqs, wire, ans>>

\* ... the packet is handed to the link object and the lock released.  A link object that has
\* been closed in the meantime transmits nothing.
TResendTx(i) ==
    /\ i \in DOMAIN timers /\ timers[i].st = "sending" /\ sendLock = i
    /\ LET tm == timers[i]
           target == IF Bug = "rereadLink" THEN link ELSE tm.lnk
       IN IF target = 0
          THEN \* self.link is None by now: AttributeError, the thread dies holding the lock
               /\ timers' = [timers EXCEPT ![i].st = "dead"]
               /\ UNCHANGED <<sendLock, wire, n>>
          ELSE /\ timers' = [timers EXCEPT ![i].st = "done"]
               /\ sendLock' = 0
               /\ IF target = link
                  THEN /\ wire' = Append(wire, [n |-> n + 1, dn |-> tm.dn, t |-> clock, sess |-> target, req |-> tm.req, first |-> FALSE])
                       /\ n' = n + 1
                  ELSE UNCHANGED <<wire, n>>     \* old, closed link object: dropped
    /\ UNCHANGED <<link, nsess, pending, clock, chk, gen, reqs, ans>>

\* dispatcher: _check_for_answers on an incoming packet
Matching(d) == {p \in PatIds : pending[p] # NoTimer /\ P!IsPrefix(Pats[p], d)}
\* snapshot of the pending patterns, longest matching prefix, cancel() of its timer ...
AnswerBegin(d) ==
    /\ link # 0 /\ Len(ans) < MaxAns /\ ~chk.on
    /\ n' = n + 1
    /\ IF Matching(d) = {}
       THEN /\ ans' = Append(ans, [n |-> n + 1, ne |-> n + 1, t |-> clock, sess |-> link, data |-> d])
            /\ UNCHANGED <<timers, chk>>
       ELSE LET p == CHOOSE p \in Matching(d) : \A q \in Matching(d) : Len(Pats[q]) <= Len(Pats[p])
                i == pending[p]
            IN /\ ans' = Append(ans, [n |-> n + 1, ne |-> 0, t |-> clock, sess |-> link, data |-> d])
               /\ chk' = [on |-> TRUE, pat |-> p, tm |-> i, gen |-> gen]
               /\ timers' = [timers EXCEPT ![i].st = IF @ = "armed" THEN "cancelled" ELSE @]
    /\ UNCHANGED <<link, nsess, pending, clock, sendLock, gen, reqs, wire>>
\* ... and `del self._answer_patterns[longest_match]` (whatever is registered there by now; after
\* a close/error the dictionary is a new one and the deletion raises KeyError in the dispatcher's
\* try/except, which changes nothing)
AnswerEnd ==
    /\ chk.on
    /\ chk' = NoChk
    /\ pending' = IF chk.gen = gen \/ Bug = "rereadPatterns"
                  THEN [pending EXCEPT ![chk.pat] = NoTimer]
                  ELSE pending           \* deleted from the old dictionary
    /\ ans' = [ans EXCEPT ![Len(ans)].ne = n + 1]
    /\ n' = n + 1
    /\ UNCHANGED <<link, nsess, timers, clock, sendLock, gen, reqs, wire>>

CancelAll == [i \in DOMAIN timers |->
                 IF timers[i].st = "armed" /\ \E p \in PatIds : pending[p] = i
                 THEN [timers[i] EXCEPT !.st = "cancelled"] ELSE timers[i]]

Close ==   \* close_link: first a zero setpoint through send_packet (needs _send_lock), then the teardown
    /\ link # 0 /\ sendLock = 0
    /\ link' = 0
    /\ pending' = [p \in PatIds |-> NoTimer]
    /\ timers' = IF Bug = "timersSurviveClose" THEN timers ELSE CancelAll
    /\ gen' = gen + 1
    /\ UNCHANGED <<nsess, clock, sendLock, chk, reqs, wire, ans, n>>

\* _link_error_cb: the driver is closed and forgotten; Bug "stalePatterns" = the pre-fix behaviour
\* that leaves the pending patterns (and their timers) in place
LinkErr ==
    /\ link # 0
    /\ link' = 0
    /\ IF Bug = "stalePatterns" THEN UNCHANGED <<pending, timers, gen>>
       ELSE /\ pending' = [p \in PatIds |-> NoTimer] /\ timers' = CancelAll /\ gen' = gen + 1
    /\ UNCHANGED <<nsess, clock, sendLock, chk, reqs, wire, ans, n>>

Reopen ==
    /\ link = 0 /\ nsess < MaxSess
    /\ link' = nsess + 1 /\ nsess' = nsess + 1
    /\ UNCHANGED <<pending, timers, clock, sendLock, chk, gen, reqs, wire, ans, n>>

\* time passes: to the next pending deadline, or to any later instant up to MaxTime.  A thread may
\* be arbitrarily slow, so Tick is enabled even while a timer has fired but not yet resent.
Tick(t) ==
    /\ t > clock /\ t <= MaxTime
    /\ sendLock = 0      \* the critical section of send_packet takes no time (Interval is about timers, not jitter)
    /\ \A i \in DOMAIN timers : timers[i].st = "armed" => t <= timers[i].dl \/ clock >= timers[i].dl
    /\ clock' = t
    /\ UNCHANGED <<link, nsess, pending, timers, sendLock, chk, gen, reqs, wire, ans, n>>

Times == {200, 300, 400, 500, 600}
Next == \/ \E p \in PatIds : Send(p)
        \/ \E i \in 1..MaxTimers : TFire(i)
        \/ \E i \in 1..MaxTimers : TResendDecide(i)
        \/ \E i \in 1..MaxTimers : TResendTx(i)
        \/ \E d \in Packets : AnswerBegin(d)
        \/ AnswerEnd
        \/ Close \/ LinkErr \/ Reopen
        \/ \E t \in Times : Tick(t)

Spec == Init /\ [][Next]_vars

\* ------------------------------------------------------------------ properties (C10)
NoClosedLinkTx == P!NoClosedLinkTx(wire)
NoCrossSession == P!NoCrossSession(wire, reqs)
NoRetryWhenReliable == P!NoRetryWhenReliable(wire, Reliable)
Interval == P!Interval(wire, reqs)
\* no retransmission is decided after the answer has been processed (positions in the global
\* event order: dn = where send_packet(resend) took its decision, ne = where _check_for_answers
\* finished; a resend already under way when the answer arrives still goes out)
AnsEnd(a) == LET c == {k \in DOMAIN ans : ans[k].n = a} IN ans[CHOOSE k \in c : TRUE].ne
NoRetryAfterAnswer ==
    \A i \in DOMAIN wire : ~wire[i].first =>
        LET a == P!AnsweredAt(reqs, ans, wire[i].req)
        IN a = 0 \/ AnsEnd(a) = 0 \/ wire[i].dn < AnsEnd(a)
\* the retry chain of a pending request is alive: exactly one live timer serves it
ChainAlive == \A p \in PatIds : pending[p] # NoTimer =>
                 /\ \/ timers[pending[p]].st \in {"armed", "fired"}
                    \/ (chk.on /\ chk.pat = p)        \* being answered: cancelled, about to be deleted
                 /\ timers[pending[p]].pat = p
\* an incoming packet cancels only its longest matching pending pattern: a pattern that is
\* pending, unanswered and whose link is open keeps exactly one live timer
\* an unanswered request of the open session keeps a live timer (its retry chain is not lost)
ChainKept == Reliable \/ \A r \in DOMAIN reqs :
                (reqs[r].sess = link /\ P!AnsweredAt(reqs, ans, r) = 0) =>
                    \E i \in DOMAIN timers : timers[i].req = r /\ timers[i].st \in {"armed", "fired", "sending"}
\* _send_lock is only ever held by a thread that is about to release it
NoLockLeak == sendLock # 0 => timers[sendLock].st = "sending"
NoOrphans == \A i, j \in DOMAIN timers :
                (i # j /\ timers[i].st \in {"armed", "fired"} /\ timers[j].st \in {"armed", "fired"}
                 /\ timers[i].sess = timers[j].sess) => timers[i].pat # timers[j].pat
=============================================================================
