------------------------------ MODULE Retry ------------------------------
(* Design spec of the request-retry mechanism of cflib.crazyflie.Crazyflie (C10):
   send_packet (whole body under _send_lock, hence one action), the Timer threads
   (wait elapsed -> TFire; send_packet(resend=True) -> TResend, a separate step so that the
   dispatcher, close_link and re-open can interleave), _check_for_answers (longest matching
   prefix), close_link, _link_error_cb, re-open.  Time in ms; Tick advances to the next deadline.

   Bug (pre-fix behaviours, each must be refuted):
     "resendAfterAnswer"   a resend whose pattern is no longer pending is still transmitted
     "timersSurviveClose"  close_link forgets the patterns without cancelling their timers
     "defaultTimeout"      a retry is re-armed with the default 200 ms instead of its own timeout
     "stalePatterns"       _link_error_cb leaves the pending patterns behind
     "noIdentity"          a resend only checks that *some* request is pending for its pattern     *)
EXTENDS Naturals, Sequences, FiniteSets, TLC

CONSTANTS Pats,        \* sequence of patterns (each a sequence of numbers)
          Tmo,         \* sequence of timeouts (ms), same length
          Packets,     \* set of incoming packets (sequences)
          MaxTimers, MaxSess, MaxTime, MaxReqs, MaxAns, Reliable, Bug

P == INSTANCE RetryProps

PatIds == DOMAIN Pats
NoTimer == 0

VARIABLES link,        \* 0 = None, else the session number
          nsess,
          pending,     \* pattern id -> timer id | 0      (_answer_patterns)
          timers,      \* sequence of [st, dl, req, pat, sess, tmo]
          clock,
          reqs, wire, ans,  \* history (RetryProps)
          n

vars == <<link, nsess, pending, timers, clock, reqs, wire, ans, n>>

Init == /\ link = 1 /\ nsess = 1
        /\ pending = [p \in PatIds |-> NoTimer]
        /\ timers = <<>>
        /\ clock = 0
        /\ reqs = <<>> /\ wire = <<>> /\ ans = <<>> /\ n = 0

Arm(req, p, sess, tmo) == [st |-> "armed", dl |-> clock + tmo, req |-> req, pat |-> p, sess |-> sess, tmo |-> tmo]

\* application sends a request with expected reply p (at most one outstanding per pattern)
Send(p) ==
    /\ link # 0 /\ pending[p] = NoTimer /\ Len(reqs) < MaxReqs
    /\ ~\E r \in DOMAIN reqs : reqs[r].pat = Pats[p] /\ reqs[r].sess = link
    /\ reqs' = Append(reqs, [n |-> n + 1, sess |-> link, pat |-> Pats[p], tmo |-> Tmo[p], t |-> clock])
    /\ wire' = Append(wire, [n |-> n + 1, t |-> clock, sess |-> link, req |-> Len(reqs) + 1, first |-> TRUE])
    /\ n' = n + 1
    /\ IF Reliable THEN UNCHANGED <<pending, timers>>
       ELSE /\ Len(timers) < MaxTimers
            /\ timers' = Append(timers, Arm(Len(reqs) + 1, p, link, Tmo[p]))
            /\ pending' = [pending EXCEPT ![p] = Len(timers) + 1]
    /\ UNCHANGED <<link, nsess, clock, ans>>

\* Timer thread: the wait elapsed and the timer was not cancelled
TFire(i) ==
    /\ i \in DOMAIN timers /\ timers[i].st = "armed" /\ clock >= timers[i].dl
    /\ timers' = [timers EXCEPT ![i].st = "fired"]
    /\ UNCHANGED <<link, nsess, pending, clock, reqs, wire, ans, n>>

\* Timer thread: _no_answer_do_retry -> send_packet(resend=True), body under _send_lock
TResend(i) ==
    /\ i \in DOMAIN timers /\ timers[i].st = "fired"
    /\ LET tm == timers[i]
           \* the request is still the one registered for its pattern (a later session may have
           \* registered the same pattern for a new request)
           stillPending == /\ pending[tm.pat] # NoTimer
                           /\ (Bug = "noIdentity" \/ timers[pending[tm.pat]].req = tm.req)
           tmo == IF Bug = "defaultTimeout" THEN 200 ELSE tm.tmo
       IN
       IF link = 0
       THEN /\ timers' = [timers EXCEPT ![i].st = "done"] /\ UNCHANGED <<pending, wire>>
       ELSE IF stillPending
            THEN /\ Len(timers) < MaxTimers
                 /\ timers' = Append([timers EXCEPT ![i].st = "done"], Arm(tm.req, tm.pat, tm.sess, tmo))
                 /\ pending' = [pending EXCEPT ![tm.pat] = Len(timers) + 1]
                 /\ wire' = Append(wire, [n |-> n + 1, t |-> clock, sess |-> link, req |-> tm.req, first |-> FALSE])
            ELSE /\ timers' = [timers EXCEPT ![i].st = "done"]
                 /\ UNCHANGED pending
                 /\ IF Bug = "resendAfterAnswer"
                    THEN wire' = Append(wire, [n |-> n + 1, t |-> clock, sess |-> link, req |-> tm.req, first |-> FALSE])
                    ELSE UNCHANGED wire
    /\ n' = IF wire' # wire THEN n + 1 ELSE n
    /\ UNCHANGED <<link, nsess, clock, reqs, ans>>

\* dispatcher: _check_for_answers on an incoming packet
Matching(d) == {p \in PatIds : pending[p] # NoTimer /\ P!IsPrefix(Pats[p], d)}
Answer(d) ==
    /\ link # 0 /\ Len(ans) < MaxAns
    /\ ans' = Append(ans, [n |-> n + 1, t |-> clock, sess |-> link, data |-> d])
    /\ n' = n + 1
    /\ IF Matching(d) = {} THEN UNCHANGED <<pending, timers>>
       ELSE LET p == CHOOSE p \in Matching(d) : \A q \in Matching(d) : Len(Pats[q]) <= Len(Pats[p])
                i == pending[p]
            IN /\ pending' = [pending EXCEPT ![p] = NoTimer]
               /\ timers' = [timers EXCEPT ![i].st = IF @ = "armed" THEN "cancelled" ELSE @]
    /\ UNCHANGED <<link, nsess, clock, reqs, wire>>

CancelAll == [i \in DOMAIN timers |->
                 IF timers[i].st = "armed" /\ \E p \in PatIds : pending[p] = i
                 THEN [timers[i] EXCEPT !.st = "cancelled"] ELSE timers[i]]

Close ==   \* close_link, and _link_error_cb (which closes the driver and forgets the link)
    /\ link # 0
    /\ link' = 0
    /\ pending' = [p \in PatIds |-> NoTimer]
    /\ timers' = IF Bug = "timersSurviveClose" THEN timers ELSE CancelAll
    /\ UNCHANGED <<nsess, clock, reqs, wire, ans, n>>

\* _link_error_cb: the driver is closed and forgotten; Bug "stalePatterns" = the pre-fix behaviour
\* that leaves the pending patterns (and their timers) in place
LinkErr ==
    /\ link # 0
    /\ link' = 0
    /\ IF Bug = "stalePatterns" THEN UNCHANGED <<pending, timers>>
       ELSE /\ pending' = [p \in PatIds |-> NoTimer] /\ timers' = CancelAll
    /\ UNCHANGED <<nsess, clock, reqs, wire, ans, n>>

Reopen ==
    /\ link = 0 /\ nsess < MaxSess
    /\ link' = nsess + 1 /\ nsess' = nsess + 1
    /\ UNCHANGED <<pending, timers, clock, reqs, wire, ans, n>>

\* time passes: to the next pending deadline, or to any later instant up to MaxTime.  A thread may
\* be arbitrarily slow, so Tick is enabled even while a timer has fired but not yet resent.
Tick(t) ==
    /\ t > clock /\ t <= MaxTime
    /\ \A i \in DOMAIN timers : timers[i].st = "armed" => t <= timers[i].dl \/ clock >= timers[i].dl
    /\ clock' = t
    /\ UNCHANGED <<link, nsess, pending, timers, reqs, wire, ans, n>>

Times == {200, 300, 400, 500, 600}
Next == \/ \E p \in PatIds : Send(p)
        \/ \E i \in 1..MaxTimers : TFire(i)
        \/ \E i \in 1..MaxTimers : TResend(i)
        \/ \E d \in Packets : Answer(d)
        \/ Close \/ LinkErr \/ Reopen
        \/ \E t \in Times : Tick(t)

Spec == Init /\ [][Next]_vars

\* ------------------------------------------------------------------ properties (C10)
NoClosedLinkTx == P!NoClosedLinkTx(wire)
NoCrossSession == P!NoCrossSession(wire, reqs)
NoRetryWhenReliable == P!NoRetryWhenReliable(wire, Reliable)
Interval == P!Interval(wire, reqs)
\* no retransmission after the answer was received (positions in the global event order)
NoRetryAfterAnswer ==
    \A i \in DOMAIN wire : ~wire[i].first =>
        LET a == P!AnsweredAt(reqs, ans, wire[i].req) IN a = 0 \/ wire[i].n < a
\* the retry chain of a pending request is alive: exactly one live timer serves it
ChainAlive == \A p \in PatIds : pending[p] # NoTimer =>
                 /\ timers[pending[p]].st \in {"armed", "fired"}
                 /\ timers[pending[p]].pat = p
\* an incoming packet cancels only its longest matching pending pattern: a pattern that is
\* pending, unanswered and whose link is open keeps exactly one live timer
NoOrphans == \A i, j \in DOMAIN timers :
                (i # j /\ timers[i].st \in {"armed", "fired"} /\ timers[j].st \in {"armed", "fired"}
                 /\ timers[i].sess = timers[j].sess) => timers[i].pat # timers[j].pat
=============================================================================
