---------------------------- MODULE LifecycleProps ----------------------------
(* C02 -- the listed property, over observable history only (no VARIABLES).

   Observables (the same shapes are produced by the design spec Lifecycle.tla and rebuilt from
   recorded events of the real code by LifecycleTrace.tla):

   word      per open_link attempt a (attempts are told apart by the URI every callback carries):
             the sequence of public callback names delivered with that URI, in delivery order.
             Names: "requested" "failed" "established" "connected" "fully" "disconnected" "lost" "dle"
             (connection_requested, connection_failed, link_established, connected, fully_connected,
              disconnected, connection_lost, disconnected_link_error).
   facts     with a "connected" callback: tocs = 1 iff the library's log AND parameter tables equal the
             device's tables at that moment; with "fully": vals = 1 iff every device parameter has a value.
   window    the callbacks delivered by the calling thread between the begin and the end of one
             Crazyflie.close_link call, resp. of one link-error report of the driver (callbacks are
             synchronous, so this is exactly "what that call produced").
   quiet     the scheduler's quiescence report at the virtual horizon after the last stimulus.
   epi       the fault-free "connect again on the same object" epilogue.

   Interpretive decisions (DESIGN 3.1(11) + builder notes in reports/C02.md):
   * a failure report / close_link that overlaps another open/close/failure of the same object is
     "racy": only the clauses that do not need attribution are applied to it;
   * "after the first packet" = link_established of that attempt was delivered before the report began;
     "before any packet arrives" = no link_established of that attempt up to the end of the report;
   * SyncCrazyflie.wait_for_params is not one of the calls the property names (open, close);
   * the legitimate idle waits of service threads are not hangs.                                   *)
EXTENDS Naturals, Sequences, FiniteSets

Setup == {"requested", "failed", "established", "connected", "fully"}
Late  == {"established", "connected", "fully"}

IsPrefix(s, t) == Len(s) <= Len(t) /\ SubSeq(t, 1, Len(s)) = s
Count(w, x) == Cardinality({i \in DOMAIN w : w[i] = x})
Only(w, S) == SelectSeq(w, LAMBDA x : x \in S)

GoodFailed == <<"requested", "failed">>
GoodSetup  == <<"requested", "established", "connected", "fully">>

\* ---- per attempt: the callback word --------------------------------------------------------------
\* requested, then failed | a prefix of (established, connected, fully)
Grammar(w) == LET s == Only(w, Setup) IN IsPrefix(s, GoodFailed) \/ IsPrefix(s, GoodSetup)

\* nothing of the set-up sequence after the attempt's first disconnected
FirstDisc(w) == IF \E i \in DOMAIN w : w[i] = "disconnected"
                THEN CHOOSE i \in DOMAIN w : w[i] = "disconnected" /\ \A j \in 1..(i - 1) : w[j] # "disconnected"
                ELSE 0
NothingAfterDisconnected(w) ==
    LET d == FirstDisc(w) IN d = 0 \/ \A j \in (d + 1)..Len(w) : w[j] \notin Late

\* connection_lost only after a disconnected of the same attempt ("one disconnected and THEN one lost")
LostAfterDisconnected(w) ==
    \A i \in DOMAIN w : w[i] = "lost" => \E j \in 1..(i - 1) : w[j] = "disconnected"

\* evaluated when callback `name` (with its logged facts) has just been appended to the word w
CallbackClause(w, name, tocs, vals) ==
    IF ~Grammar(w) THEN "Grammar"
    ELSE IF name = "connected" /\ tocs # 1 THEN "ConnectedBeforeTables"
    ELSE IF name = "fully" /\ vals # 1 THEN "FullyBeforeValues"
    ELSE IF ~NothingAfterDisconnected(w) THEN "AfterDisconnected"
    ELSE IF ~LostAfterDisconnected(w) THEN "LostWithoutDisconnected"
    ELSE "ok"

\* ---- per Crazyflie.close_link call ---------------------------------------------------------------
\* win = names of the callbacks the calling thread delivered during the call
CloseClause(win) == IF Count(win, "disconnected") = 1 THEN "ok" ELSE "CloseOneDisconnected"

\* ---- per link-failure report ---------------------------------------------------------------------
\* f = [est   : link_established of the attempt had been delivered when the report began,
\*      disc  : a disconnected of the attempt had been delivered when the report began,
\*      racy  : another open_link / close_link / report (of another thread) overlapped this report,
\*      estDuring : link_established of the attempt was delivered (by another thread) during the report,
\*      win   : names of the callbacks delivered by the reporting thread during the report]
\* w = the attempt's callback word when the report ends
FailureClause(f, w) ==
    IF f.racy \/ f.disc THEN "ok"
    ELSE IF f.est
         THEN IF Only(f.win, {"disconnected", "lost", "failed"}) = <<"disconnected", "lost">>
              THEN "ok" ELSE "FailureDisconnectedThenLost"
    ELSE IF f.estDuring THEN "ok"
    ELSE IF Count(w, "failed") = 1 /\ Count(f.win, "disconnected") = 0 /\ Count(f.win, "lost") = 0
         THEN "ok" ELSE "FailureBeforeFirstPacketFails"

\* ---- window bookkeeping (shared by the design spec and the trace spec) ----------------------------
\* act = Seq([kind, th, att, win, est, disc, racy, estDuring]) : calls / reports in progress, oldest first
Racing == {"open", "close", "lerr"}
Has(w, x) == \E i \in DOMAIN w : w[i] = x
InnermostOf(act, th, kinds) ==
    IF \E i \in DOMAIN act : act[i].th = th /\ act[i].kind \in kinds
    THEN CHOOSE i \in DOMAIN act : /\ act[i].th = th /\ act[i].kind \in kinds
                                  /\ \A j \in (i + 1)..Len(act) : ~(act[j].th = th /\ act[j].kind \in kinds)
    ELSE 0
AllKinds == {"open", "close", "lerr", "sopen", "sclose", "waitp"}
\* w = the word of attempt att when the call / report begins
WinBegin(act, w, kind, th, att) ==
    LET other  == \E i \in DOMAIN act : act[i].kind \in Racing /\ act[i].th # th
        new    == [kind |-> kind, th |-> th, att |-> att, win |-> <<>>,
                   est |-> Has(w, "established"), disc |-> Has(w, "disconnected"),
                   racy |-> (kind \in Racing /\ other), estDuring |-> FALSE]
        marked == [i \in DOMAIN act |->
                     IF kind \in Racing /\ act[i].kind \in Racing /\ act[i].th # th
                     THEN [act[i] EXCEPT !.racy = TRUE] ELSE act[i]]
    IN Append(marked, new)
WinRemove(act, i) == [j \in 1..(Len(act) - 1) |-> IF j < i THEN act[j] ELSE act[j + 1]]
WinClause(x, w) == CASE x.kind = "close" -> CloseClause(x.win)
                     [] x.kind = "lerr"  -> FailureClause(x, w)
                     [] OTHER -> "ok"
\* a callback `name` of attempt att delivered by thread th: it belongs to th's innermost window
WinCallback(act, th, name, att) ==
    LET k == InnermostOf(act, th, AllKinds) IN
    [i \in DOMAIN act |->
        IF i = k THEN [act[i] EXCEPT !.win = Append(@, name)]
        ELSE IF act[i].kind = "lerr" /\ act[i].att = att /\ name = "established" /\ act[i].th # th
             THEN [act[i] EXCEPT !.estDuring = TRUE]
        ELSE act[i]]

\* ---- quiescence -----------------------------------------------------------------------------------
\* q = [threads : Seq([role, status, op, file, fn]),   (threads that have not finished)
\*      pending : Seq([kind, api, th, att]),           (API calls that have not returned or raised)
\*      state   : 0 = DISCONNECTED, disp_alive : 0/1, ...]
IdleWait(t) == \/ t.status = "timed-wait"
               \/ t.status = "runnable"
               \/ /\ t.status = "blocked" /\ t.op = "queue.get" /\ t.role \in {"upd", "ext", "dev"}
\* a thread parked in one of SyncCrazyflie's own event waits (judged through `pending`)
InWrapperWait(t) == t.status = "blocked" /\ t.op = "event.wait" /\ t.file = "syncCrazyflie.py"

\* stim: the last attempt saw a link-error report or a close_link call ("whenever the link driver reports an
\* error or the application closes the link ... the library reaches the disconnected state")
QuietClause(q, stim) ==
    IF \E i \in DOMAIN q.threads : q.threads[i].status = "dead" THEN "ThreadDied"
    ELSE IF q.disp_alive = 0 THEN "ThreadDied"
    ELSE IF \E i \in DOMAIN q.threads : ~IdleWait(q.threads[i]) /\ ~InWrapperWait(q.threads[i]) THEN "Deadlock"
    ELSE IF \E i \in DOMAIN q.pending : q.pending[i].kind \in {"sopen", "sclose"} THEN "SyncCallHangs"
    ELSE IF \E i \in DOMAIN q.pending : q.pending[i].kind \in {"open", "close"} THEN "Deadlock"
    ELSE IF stim /\ q.state # 0 THEN "NotDisconnected"
    ELSE "ok"

\* ---- epilogue: the same object connects again -----------------------------------------------------
\* a fault-free open_link on the same object after everything has gone quiet must run to completion: connected, and
\* (nothing disturbs it, every parameter has a value on the device) fully_connected
EpilogueClause(connected, fully) == IF connected # 1 THEN "ReconnectFails"
                                    ELSE IF fully # 1 THEN "ReconnectIncomplete" ELSE "ok"
=============================================================================
