------------------------------ MODULE ImagesProps ------------------------------
(* C14 -- the listed property, over observable history only.

   One *case* is one stored image (or file) handled by the library.  What is observable:
     content   what the user handed to the library (field values, floats as their exact
               little-endian IEEE byte strings, text as byte strings)
     wrote     the write requests the library issued to the memory, in order:
               Seq([addr, data])
     regs      the memory as the parser saw it: function  base address -> Seq(0..255)
               (after the writes were applied and the environment corrupted bytes)
     obs       what the parser reported (decoded fields, valid flag, was the completion
               callback called, did a callback raise)

   Every ...Clause operator returns "ok" or the name of the first failing clause.  The checksum
   and the CRC-32 are computed here, by TLC, from the bytes.

   Where the layouts come from (independent of the code under test): the firmware structures
   as I remember them -- configblock.c (magic "0xBC", version, radio channel, speed, pitch and
   roll trim, v1: address upper byte + lower word, modulo-256 sum over everything before it),
   deck_info / ow (0xEB, usedPins u32, vid, pid, crc32 low byte; TLV area: version 0, length,
   (id, len, bytes)*, crc32 low byte over version..last TLV byte), lighthouse
   baseStationGeometry_t {float origin[3]; float mat[3][3]; bool valid} and
   lighthouseCalibration_t {sweep[2]{phase,tilt,curve,gibmag,gibphase,ogeemag,ogeephase};
   uint32 uid; bool valid}, pages of 0x100 from 0x0000 / 0x1000, struct poly4d {float p[4][8];
   float duration}, ledring12 "timing" {duration; rgb565 big endian; leds:4 fade:1 rotate:3;
   duration 0 terminates}, deck memory info (version 3; per deck 0x20 bytes: bit field, bit
   field 2, required hash, required length, base address, name[18]), loco anchor pages
   {float x,y,z; bool valid}.

   Interpretive decisions (weaker reading wherever the text leaves room):
   * an EEPROM image is in the clause "valid iff checksum" when it starts with the token and its
     version byte is 0 or 1 (the versions the library writes); the covered bytes are the ones of
     the version *as stored*.  "Any single corrupted byte is detected" is demanded for every
     position and value except the version byte flipped between 0 and 1 (that changes which
     bytes are covered; no parser can tell the result from a genuine image of the other
     version).
   * a 1-wire image "reported valid" must have the 0xEB start byte and both CRC low bytes right;
     the converse is demanded when the element area is also well formed (ids 1..3, lengths
     inside the area) -- the property text does not say what "valid" means for a TLV area the
     writer cannot produce.
   * the order of the TLV elements inside the 1-wire element area is free (the firmware walks
     the TLVs); each key of the content must appear exactly once.
   * "reported valid" = the completion callback was called, no callback raised, and the valid
     flag is set.
   * file round trips: a lighthouse geometry/calibration whose valid flag is False is not part
     of the file content (the file format has no valid flag).  *)
EXTENDS Naturals, Sequences, FiniteSets, Bitwise

ToSet(s) == {s[i] : i \in DOMAIN s}
Sub(s, a, n) == SubSeq(s, a, a + n - 1)          \* n bytes from 1-based position a
Bit(x, k) == (x \div (2 ^ k)) % 2 = 1
B2N(b) == IF b THEN 1 ELSE 0

\* (recursions over byte strings are divide-and-conquer: TLC's evaluation depth stays logarithmic)
RECURSIVE ConcatR(_, _, _)
ConcatR(ss, a, b) == IF a > b THEN <<>> ELSE IF a = b THEN ss[a]
                     ELSE LET m == (a + b) \div 2 IN ConcatR(ss, a, m) \o ConcatR(ss, m + 1, b)
Concat(ss) == ConcatR(ss, 1, Len(ss))

\* ------------------------------------------------------------------ checksums
RECURSIVE SumR(_, _, _)
SumR(s, a, b) == IF a > b THEN 0 ELSE IF a = b THEN s[a]
                 ELSE LET m == (a + b) \div 2 IN (SumR(s, a, m) + SumR(s, m + 1, b)) % 256
Sum256(s) == SumR(s, 1, Len(s)) % 256

\* CRC-32 (reflected 0xEDB88320, init and final xor 0xFFFFFFFF) on two 16-bit limbs <<hi, lo>>
CrcShift1(c) == LET h2 == c[1] \div 2
                    l2 == (c[2] \div 2) + (c[1] % 2) * 32768
                IN IF c[2] % 2 = 1 THEN <<h2 ^^ 60856, l2 ^^ 33568>> ELSE <<h2, l2>>
CrcTable == [i \in 0..255 |->
    CrcShift1(CrcShift1(CrcShift1(CrcShift1(CrcShift1(CrcShift1(CrcShift1(CrcShift1(<<0, i>>))))))))]
CrcByte(c, b) == LET t == CrcTable[(c[2] % 256) ^^ b]
                 IN <<(c[1] \div 256) ^^ t[1], ((c[2] \div 256) + (c[1] % 256) * 256) ^^ t[2]>>
RECURSIVE CrcRun(_, _, _, _)
CrcRun(c, s, a, b) == IF a > b THEN c ELSE IF a = b THEN CrcByte(c, s[a])
                      ELSE LET m == (a + b) \div 2 IN CrcRun(CrcRun(c, s, a, m), s, m + 1, b)
Crc32(s) == LET c == CrcRun(<<65535, 65535>>, s, 1, Len(s)) IN <<c[1] ^^ 65535, c[2] ^^ 65535>>
Crc8(s) == Crc32(s)[2] % 256                     \* the low byte the 1-wire format stores

\* ------------------------------------------------------------------ memory model
\* regions: function base -> bytes.  A request lies inside one region or fails.
RegionOf(regs, addr, n) ==
    {r \in DOMAIN regs : r <= addr /\ addr + n <= r + Len(regs[r])}
CanAccess(regs, addr, n) == RegionOf(regs, addr, n) # {}
ReadMem(regs, addr, n) == LET r == CHOOSE r \in RegionOf(regs, addr, n) : TRUE
                          IN Sub(regs[r], addr - r + 1, n)
WriteMem(regs, addr, data) ==
    LET r == CHOOSE r \in RegionOf(regs, addr, Len(data)) : TRUE
        o == addr - r
    IN [regs EXCEPT ![r] = [i \in 1..Len(@) |-> IF i > o /\ i <= o + Len(data) THEN data[i - o] ELSE @[i]]]
Reg0(regs) == IF 0 \in DOMAIN regs THEN regs[0] ELSE <<>>
\* what a sequence of write requests leaves at addresses base .. base+n-1 (256 = never written), and
\* the set of addresses it touches: layouts are judged on the bytes stored, not on how the
\* library cuts them into requests
Written(wrote, base, n) ==
    [i \in 1..n |-> LET a == base + i - 1
                        ws == {k \in DOMAIN wrote : wrote[k].addr <= a /\ a < wrote[k].addr + Len(wrote[k].data)}
                    IN IF ws = {} THEN 256
                       ELSE LET k == CHOOSE x \in ws : \A y \in ws : y <= x IN wrote[k].data[a - wrote[k].addr + 1]]
Touched(wrote) == UNION {{wrote[k].addr + j - 1 : j \in 1..Len(wrote[k].data)} : k \in DOMAIN wrote}
Span(base, n) == {base + j - 1 : j \in 1..n}
StoredExactly(wrote, base, img) == Written(wrote, base, Len(img)) = img /\ Touched(wrote) = Span(base, Len(img))

\* ------------------------------------------------------------------ EEPROM radio configuration
\* content: [ver, ch, speed, pitch (4 bytes), roll (4 bytes), addr (5 bytes, little endian)]
Token == <<48, 120, 66, 67>>                     \* "0xBC"
EepromBody(c) == <<c.ver, c.ch, c.speed>> \o c.pitch \o c.roll \o
                 (IF c.ver = 1 THEN <<c.addr[5]>> \o SubSeq(c.addr, 1, 4) ELSE <<>>)
EepromImage(c) == LET b == Token \o EepromBody(c) IN b \o <<Sum256(b)>>
EepromCovered(ver) == IF ver = 0 THEN 16 ELSE 21
EepromFieldsEq(p, c) == /\ p.ver = c.ver /\ p.ch = c.ch /\ p.speed = c.speed
                        /\ p.pitch = c.pitch /\ p.roll = c.roll
                        /\ (c.ver = 1 => p.addr = c.addr)
ReportedValid(o) == o.reported /\ o.valid /\ ~o.raised

EepromClause(c, wrote, regs, o) ==
    LET img == EepromImage(c)
        n == Len(img)
        m == Reg0(regs)
        rv == ReportedValid(o)
        inDomain == Len(m) >= 21 /\ SubSeq(m, 1, 4) = Token /\ m[5] \in {0, 1}
        cov == EepromCovered(m[5])
        sumOk == Sum256(SubSeq(m, 1, cov - 1)) = m[cov]
        diff == {i \in 1..n : m[i] # img[i]}
    IN IF ~StoredExactly(wrote, 0, img) THEN "EepromLayout"
       ELSE IF Len(m) < 21 THEN "ok"
       ELSE IF inDomain /\ rv /\ ~sumOk THEN "EepromValidDespiteChecksum"
       ELSE IF inDomain /\ ~rv /\ sumOk THEN "EepromChecksumOkRejected"
       ELSE IF diff = {} /\ ~rv THEN "EepromWrittenImageRejected"
       ELSE IF diff = {} /\ ~EepromFieldsEq(o.parsed, c) THEN "EepromFieldsLost"
       ELSE IF Cardinality(diff) = 1 /\ ~(diff = {5} /\ m[5] \in {0, 1}) /\ rv
            THEN "EepromCorruptionUndetected"
       ELSE "ok"

\* ------------------------------------------------------------------ 1-wire deck identity
\* content: [pins (4 bytes LE), vid, pid, elems: Seq([id, str])]   (elems in the user's dict order)
OwHeader(c) == LET h == <<235>> \o c.pins \o <<c.vid, c.pid>> IN h \o <<Crc8(h)>>

RECURSIVE TlvFrom(_, _, _)
TlvFrom(a, i, acc) ==
    IF i > Len(a) THEN [ok |-> TRUE, items |-> acc]
    ELSE IF i + 1 > Len(a) \/ i + 1 + a[i + 1] > Len(a) THEN [ok |-> FALSE, items |-> acc]
    ELSE TlvFrom(a, i + 2 + a[i + 1], Append(acc, [id |-> a[i], str |-> SubSeq(a, i + 2, i + 1 + a[i + 1])]))
Tlv(a) == TlvFrom(a, 1, <<>>)

OwFieldsEq(p, c) == /\ p.pins = c.pins /\ p.vid = c.vid /\ p.pid = c.pid
                    /\ Len(p.elems) = Len(c.elems) /\ ToSet(p.elems) = ToSet(c.elems)

OwWritten(wrote) == LET T == Touched(wrote) IN Written(wrote, 0, Cardinality(T))
OwLayoutOk(c, wrote) ==
    /\ Touched(wrote) = Span(0, Cardinality(Touched(wrote)))
    /\ LET W == OwWritten(wrote)  wl == Len(W) IN
       /\ wl >= 11 /\ SubSeq(W, 1, 8) = OwHeader(c)
       /\ W[9] = 0 /\ wl = 11 + W[10]
       /\ W[wl] = Crc8(SubSeq(W, 9, wl - 1))
       /\ LET t == Tlv(SubSeq(W, 11, wl - 1)) IN
          t.ok /\ Len(t.items) = Len(c.elems) /\ ToSet(t.items) = ToSet(c.elems)

OwClause(c, wrote, regs, o) ==
    LET m == Reg0(regs)
        rv == ReportedValid(o)
        W == OwWritten(wrote)
        hdrOk == Len(m) >= 11 /\ m[1] = 235 /\ m[8] = Crc8(SubSeq(m, 1, 7))
        L == m[10]
        areaIn == 11 + L <= Len(m)
        elemOk == areaIn /\ m[11 + L] = Crc8(SubSeq(m, 9, 10 + L))
        t == Tlv(SubSeq(m, 11, 10 + L))
        wellFormed == t.ok /\ \A i \in DOMAIN t.items : t.items[i].id \in {1, 2, 3}
        same == Len(m) >= Len(W) /\ SubSeq(m, 1, Len(W)) = W
    IN IF ~OwLayoutOk(c, wrote) THEN "OwLayout"
       ELSE IF rv /\ ~(hdrOk /\ elemOk) THEN "OwValidDespiteCrc"
       ELSE IF hdrOk /\ elemOk /\ wellFormed /\ ~rv THEN "OwCrcOkRejected"
       ELSE IF same /\ ~rv THEN "OwWrittenImageRejected"
       ELSE IF same /\ ~OwFieldsEq(o.parsed, c) THEN "OwFieldsLost"
       ELSE "ok"

\* ------------------------------------------------------------------ lighthouse memory layout
\* content: [geos: Seq([id, f (12 floats of 4 bytes), valid]), calibs: Seq([id, f (14 floats), uid (4 bytes), valid])]
GeoImage(g) == Concat(g.f) \o <<B2N(g.valid)>>
CalibImage(k) == Concat(k.f) \o k.uid \o <<B2N(k.valid)>>
LhPagesOk(c, wrote) ==
    /\ \A i \in DOMAIN c.geos : Written(wrote, c.geos[i].id * 256, 49) = GeoImage(c.geos[i])
    /\ \A i \in DOMAIN c.calibs : Written(wrote, 4096 + c.calibs[i].id * 256, 61) = CalibImage(c.calibs[i])
    /\ Touched(wrote) = UNION ({Span(c.geos[i].id * 256, 49) : i \in DOMAIN c.geos} \cup
                               {Span(4096 + c.calibs[i].id * 256, 61) : i \in DOMAIN c.calibs})
\* nbs: the number of base stations the (fake) firmware supports; obs: [geos, calibs, wok]
LhClause(c, wrote, nbs, o) ==
    IF ~LhPagesOk(c, wrote) THEN "LhLayout"
    ELSE IF \E i \in DOMAIN c.geos : c.geos[i].id < nbs /\ c.geos[i] \notin ToSet(o.geos) THEN "LhGeoLost"
    ELSE IF \E i \in DOMAIN c.calibs : c.calibs[i].id < nbs /\ c.calibs[i] \notin ToSet(o.calibs) THEN "LhCalibLost"
    ELSE "ok"

\* ------------------------------------------------------------------ YAML files (content level)
\* lighthouse system configuration file.  content: [geos: Seq([id, f (12 doubles of 8 bytes), valid]),
\*   calibs: Seq([id, f (14 doubles), uid, valid]), systype]; obs: [raised, geos, calibs, systype]
FileEntries(s) == {[e EXCEPT !.valid = TRUE] : e \in {x \in ToSet(s) : x.valid}}
LhFileClause(c, o) ==
    IF o.raised THEN "LhFileRejected"
    ELSE IF ToSet(o.geos) # FileEntries(c.geos) \/ Len(o.geos) # Cardinality(FileEntries(c.geos)) THEN "LhFileGeos"
    ELSE IF ToSet(o.calibs) # FileEntries(c.calibs) \/ Len(o.calibs) # Cardinality(FileEntries(c.calibs)) THEN "LhFileCalibs"
    ELSE IF o.systype # c.systype THEN "LhFileSystemType"
    ELSE "ok"
\* persistent parameter file.  content: [params: Seq([name, stored, dv, sv])]; obs: [raised, params]
ParamFileClause(c, o) ==
    IF o.raised THEN "ParamFileRejected"
    ELSE IF ToSet(o.params) # ToSet(c.params) \/ Len(o.params) # Len(c.params) THEN "ParamFileContent"
    ELSE "ok"

\* ------------------------------------------------------------------ write-only images
\* polynomial trajectory.  content: [addr, pieces: Seq([x, y, z, yaw (8 floats each), dur (4 bytes)])]
PolyImage(p) == Concat(p.x) \o Concat(p.y) \o Concat(p.z) \o Concat(p.yaw) \o p.dur
PolyAll(ps) == Concat([i \in 1..Len(ps) |-> PolyImage(ps[i])])
PolyClause(c, wrote) ==
    IF StoredExactly(wrote, c.addr, PolyAll(c.pieces)) THEN "ok" ELSE "PolyLayout"

\* LED timing sequence.  content: [timings: Seq([time 0..255, r, g, b, leds 0..15, fade 0..1, rotate 0..7])]
LedEntry(t) == LET r5 == ((t.r * 249 + 1014) \div 2048) % 32
                   g6 == ((t.g * 253 + 505) \div 1024) % 64
                   b5 == ((t.b * 249 + 1014) \div 2048) % 32
                   led == r5 * 2048 + g6 * 32 + b5
               IN <<t.time, led \div 256, led % 256, t.leds + 16 * t.fade + 32 * t.rotate>>
\* a step whose four bytes are all zero would read as the terminator: it cannot be stored and is
\* left out; every other step (also one of duration 0) is stored
LedAll(ts) == Concat([i \in 1..Len(ts) |-> IF LedEntry(ts[i]) = <<0, 0, 0, 0>> THEN <<>> ELSE LedEntry(ts[i])])
              \o <<0, 0, 0, 0>>
LedClause(c, wrote) ==
    IF StoredExactly(wrote, 0, LedAll(c.timings)) THEN "ok" ELSE "LedLayout"

\* ------------------------------------------------------------------ device-encoded sections
\* deck memory info section: 1 version byte + 8 records of 32 bytes
DeckRec(m, i) == Sub(m, 2 + 32 * i, 32)
DeckName(r) == LET nm == Sub(r, 15, 18)
                   z == {k \in 1..18 : nm[k] = 0}
                   n == IF z = {} THEN 18 ELSE (CHOOSE k \in z : \A j \in z : k <= j) - 1
               IN SubSeq(nm, 1, n)
DeckDecode(m, i) == LET r == DeckRec(m, i) IN
    [idx |-> i,
     flags |-> <<Bit(r[1], 0), Bit(r[1], 1), Bit(r[1], 2), Bit(r[1], 3), Bit(r[1], 4), Bit(r[1], 5),
                 Bit(r[1], 6), Bit(r[2], 0), Bit(r[2], 1)>>,
     hash |-> Sub(r, 3, 4), len |-> Sub(r, 7, 4), base |-> Sub(r, 11, 4), name |-> DeckName(r)]
DeckAscii(m, i) == \A k \in DOMAIN DeckName(DeckRec(m, i)) : DeckName(DeckRec(m, i))[k] < 128
\* obs: [ok, decks: Seq of decoded records]
DeckClause(regs, o) ==
    LET m == Reg0(regs)
        present == {i \in 0..7 : Bit(DeckRec(m, i)[1], 0)}
    IN IF Len(m) # 257 \/ m[1] # 3 \/ \E i \in present : ~DeckAscii(m, i) THEN "ok"
       ELSE IF ~o.ok THEN "DeckQueryFailed"
       ELSE IF ToSet(o.decks) # {DeckDecode(m, i) : i \in present} \/ Len(o.decks) # Cardinality(present)
            THEN "DeckFields"
       ELSE "ok"

\* loco anchor list, version 1: regs[0] = <<n>>, anchor i at 0x1000 + 0x100 i: x, y, z, valid
AnchorDecode(p) == [pos |-> <<Sub(p, 1, 4), Sub(p, 5, 4), Sub(p, 9, 4)>>, valid |-> p[13] # 0]
\* obs: [reported, valid, nr, anchors: Seq([pos, valid])]
LocoClause(regs, o) ==
    LET n == regs[0][1]
        encoded == \A i \in 0..(n - 1) : (4096 + 256 * i) \in DOMAIN regs /\ Len(regs[4096 + 256 * i]) = 13
    IN IF ~encoded THEN "ok"
       ELSE IF ~(o.reported /\ o.valid) THEN "LocoNotReported"
       ELSE IF o.nr # n \/ Len(o.anchors) # n THEN "LocoCount"
       ELSE IF \E i \in 1..n : o.anchors[i] # AnchorDecode(regs[4096 + 256 * (i - 1)]) THEN "LocoFields"
       ELSE "ok"

\* loco anchor lists, version 2: regs[0] = count + 16 ids, regs[0x1000] = active count + ids,
\* anchor id at 0x2000 + 0x100 id.  obs: [ids, active, data: Seq([id, pos, valid]), idsValid, activeValid, dataValid]
Loco2Clause(regs, o) ==
    LET l == regs[0]  a == regs[4096]
        n == l[1]  na == a[1]
        ids == SubSeq(l, 2, 1 + n)
        encoded == n <= 16 /\ na <= 16 /\ \A i \in 1..n : (8192 + 256 * ids[i]) \in DOMAIN regs
        want == {[id |-> ids[i], pos |-> AnchorDecode(regs[8192 + 256 * ids[i]]).pos,
                  valid |-> AnchorDecode(regs[8192 + 256 * ids[i]]).valid] : i \in 1..n}
    IN IF ~encoded THEN "ok"
       ELSE IF ~o.idsValid \/ o.ids # ids THEN "Loco2Ids"
       ELSE IF ~o.activeValid \/ o.active # SubSeq(a, 2, 1 + na) THEN "Loco2ActiveIds"
       ELSE IF n > 0 /\ ~o.dataValid THEN "Loco2DataNotReported"
       ELSE IF ToSet(o.data) # want \/ Len(o.data) # Cardinality(want) THEN "Loco2Fields"
       ELSE "ok"

\* ------------------------------------------------------------------ dispatch on the format
CaseClause(fmt, c, wrote, regs, env, o) ==
    CASE fmt = "eeprom" -> EepromClause(c, wrote, regs, o)
      [] fmt = "ow" -> OwClause(c, wrote, regs, o)
      [] fmt = "lh" -> LhClause(c, wrote, env.nbs, o)
      [] fmt = "lhfile" -> LhFileClause(c, o)
      [] fmt = "paramfile" -> ParamFileClause(c, o)
      [] fmt = "poly" -> PolyClause(c, wrote)
      [] fmt = "led" -> LedClause(c, wrote)
      [] fmt = "deck" -> DeckClause(regs, o)
      [] fmt = "loco" -> LocoClause(regs, o)
      [] fmt = "loco2" -> Loco2Clause(regs, o)
      [] OTHER -> "UnknownFormat"
=============================================================================
