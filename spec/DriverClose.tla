------------------------------ MODULE DriverClose ------------------------------
(* Design spec of the life of ONE link-driver object of cflib.crtp (C10, closed links):

      fresh -> connect -> [send | comm-thread traffic | unplug | jam]* -> close (device calls
      inside close may fail) -> send on the closed object, close again, connect again -> ...

   kind  "usb"   UsbDriver   : send_packet writes to the device in the caller's thread (only when
                               the object holds a device handle); the comm thread only reads; an
                               unplugged device makes the comm thread report link errors
         "tcp"   TcpDriver   : like usb (socket instead of USB handle), connect() transmits one
                               frame of its own, no link-error reports
         "udp"   UdpDriver   : no comm thread; connect() and close() transmit a frame of their own
         "radio" RadioDriver : send_packet puts the packet into out_queue (capacity 1); the comm
                               thread (_RadioDriverThread, through the shared dongle) transmits:
                               safelink handshake, then forever { frame; on ack: next packet from
                               out_queue or a null frame }.  close() stops and joins the thread,
                               drops the dongle, empties the queue; connect() makes a new queue.
   API calls are split into a begin and an end action (events connb/conn, send/sent, closeb/close)
   so that the comm thread interleaves with them (close() while the radio is mid-exchange).
   The application's calls and the link-error callback (which, as Crazyflie._link_error_cb does,
   may itself call close() from inside the comm thread) do not overlap each other.

   Bug = "none" is the design as the code stands.  Named defects:
     keepHandleOnError  the handle is dropped only when the device calls inside close() succeed
     noDrop             close() never drops the handle
     noJoin             radio: close() does not wait for the comm thread
     keepOutQueue       radio: close() does not empty out_queue and connect() keeps the old one  *)
EXTENDS Naturals, Sequences, FiniteSets, TLC

CONSTANTS Kinds,       \* subset of {"usb", "tcp", "udp", "radio"} explored
          CbModes,     \* subset of BOOLEAN: does the link-error callback close the link
          SlModes,     \* subset of BOOLEAN: does the peer accept the safelink handshake (radio)
          Bug,
          Faults,      \* faults that can be armed for one close(): subset of {"none", "f1", "f2"}
                       \* (f1 / f2 = the first / second device call inside close() raises)
          MaxOps,      \* application-level operations (API calls, unplug, jam)
          MaxSess, MaxReq,
          MaxIdle,     \* frames of its own (null frames) the radio comm thread may send
          MaxErr,      \* link-error reports
          HsMax,       \* safelink handshake attempts (10 in the code)
          Retries,     \* radio: lost frames in a row before the link error
          JamLen,      \* frames lost by one jam
          KeepHistory  \* FALSE: h stays empty (trace validation: only the monitor state mon is carried along)

P == INSTANCE DriverCloseProps

VARIABLES kind, cbcl, sl,       \* configuration, fixed in Init
          upc,                  \* application thread: "idle" | "conn" | "connx" | "send" | "close"
          cbc,                  \* link-error callback: "idle" | "pend" | "close"
          handle,               \* the object holds a device handle (cfusb / _radio / cpx / socket)
          fresh,                \* never connected
          thr,                  \* comm thread: "none" | "run" | "done"
          sp,                   \* its stop flag
          tpc, cur, hs,         \* radio comm thread: "tx" | "ack" | "get"; frame to send (0 = own frame); handshake attempts left
          outq,                 \* radio: the object's out_queue
          dev, jam,             \* device: "ok" | "gone" | "jam" (+ frames still to lose)
          fault,                \* armed for the close() in progress
          owed,                 \* the API call in progress still owes a device write / a queue put
          req, sess, nreq, nops, nidle, lostrow, nerr,
          lasto,                \* radio: outcome of the transfer the thread has not looked at yet ("A" | "L" | "N" refused)
          h,                    \* observable history (DriverCloseProps events)
          mon                   \* the property monitor run along h: [m, c] = DriverCloseProps!Fold(h)

cfgv == <<kind, cbcl, sl>>
vars == <<kind, cbcl, sl, upc, cbc, handle, fresh, thr, sp, tpc, cur, hs, outq, dev, jam, fault, owed,
          req, sess, nreq, nops, nidle, lostrow, lasto, nerr, h, mon>>

\* everything but the history itself (the monitor state mon summarises it): VIEW of the large configurations
NoHistory == <<kind, cbcl, sl, upc, cbc, handle, fresh, thr, sp, tpc, cur, hs, outq, dev, jam, fault, owed,
               req, sess, nreq, nops, nidle, lostrow, lasto, nerr, mon>>

Sync(k) == k \in {"usb", "tcp", "udp"}
HasThread(k) == k # "udp"
ChecksOpen(k) == k \in {"usb", "radio"}        \* connect() refuses an object that holds a handle
ConnWrites(k) == k \in {"tcp", "udp"}
CloseWrites(k) == k = "udp"
KindFaults(k) == IF k \in {"usb", "tcp"} THEN {"none", "f1", "f2"} ELSE {"none"}
E(e, a) == P!E(e, a)
Log(e, a) == /\ h' = IF KeepHistory THEN Append(h, E(e, a)) ELSE h
             /\ mon' = [m |-> P!MonStep(mon.m, E(e, a)),
                         c |-> IF mon.c # "ok" THEN mon.c ELSE P!EvClause(mon.m, E(e, a))]

Init == /\ kind \in Kinds /\ cbcl \in CbModes /\ sl \in SlModes
        /\ upc = "idle" /\ cbc = "idle" /\ handle = FALSE /\ fresh = TRUE
        /\ thr = "none" /\ sp = FALSE /\ tpc = "tx" /\ cur = 0 /\ hs = 0 /\ outq = <<>>
        /\ dev = "ok" /\ jam = 0 /\ fault = "none" /\ owed = FALSE
        /\ req = 0 /\ sess = 0 /\ nreq = 0 /\ nops = 0 /\ nidle = 0 /\ lostrow = 0
        /\ lasto = "A" /\ nerr = 0 /\ h = <<>> /\ mon = [m |-> P!M0, c |-> "ok"]

Free == upc = "idle" /\ cbc = "idle" /\ nops < MaxOps

\* ------------------------------------------------------------------ connect()
ConnB == /\ Free /\ sess < MaxSess
         /\ Log("connb", 0)
         /\ IF handle /\ ChecksOpen(kind)
            THEN /\ upc' = "connx"          \* 'Link already open!'
                 /\ UNCHANGED <<handle, fresh, thr, sp, tpc, cur, hs, outq, dev, jam, owed, lostrow>>
            ELSE /\ upc' = "conn" /\ handle' = TRUE /\ fresh' = FALSE
                 /\ dev' = "ok" /\ jam' = 0          \* a device is found (replugged if need be)
                 /\ thr' = IF HasThread(kind) THEN "run" ELSE "none"
                 /\ sp' = FALSE /\ tpc' = "tx" /\ cur' = 0
                 /\ hs' = IF kind = "radio" THEN HsMax ELSE 0
                 /\ outq' = IF Bug = "keepOutQueue" THEN outq ELSE <<>>
                 /\ owed' = ConnWrites(kind) /\ lostrow' = 0
         /\ UNCHANGED <<cfgv, cbc, fault, req, sess, nreq, nops, nidle, lasto, nerr>>

ConnW == /\ upc = "conn" /\ owed /\ dev = "ok"
         /\ Log("wr", 0) /\ owed' = FALSE
         /\ UNCHANGED <<cfgv, upc, cbc, handle, fresh, thr, sp, tpc, cur, hs, outq, dev, jam, fault,
                        req, sess, nreq, nops, nidle, lostrow, lasto, nerr>>

ConnE == /\ upc \in {"conn", "connx"} /\ ~owed
         /\ Log("conn", IF upc = "conn" THEN 1 ELSE 0)
         /\ sess' = IF upc = "conn" THEN sess + 1 ELSE sess
         /\ upc' = "idle" /\ nops' = nops + 1
         /\ UNCHANGED <<cfgv, cbc, handle, fresh, thr, sp, tpc, cur, hs, outq, dev, jam, fault, owed,
                        req, nreq, nidle, lostrow, lasto, nerr>>

\* ------------------------------------------------------------------ send_packet()
SendB == /\ Free /\ nreq < MaxReq
         /\ req' = nreq + 1 /\ nreq' = nreq + 1
         /\ Log("send", nreq + 1)
         /\ upc' = "send"
         /\ owed' = IF Sync(kind) THEN handle ELSE ~fresh
         /\ UNCHANGED <<cfgv, cbc, handle, fresh, thr, sp, tpc, cur, hs, outq, dev, jam, fault,
                        sess, nops, nidle, lostrow, lasto, nerr>>

SendWr == /\ upc = "send" /\ Sync(kind) /\ owed /\ dev = "ok"
          /\ Log("wr", req) /\ owed' = FALSE
          /\ UNCHANGED <<cfgv, upc, cbc, handle, fresh, thr, sp, tpc, cur, hs, outq, dev, jam, fault,
                         req, sess, nreq, nops, nidle, lostrow, lasto, nerr>>

\* returns (or raises).  radio: the packet goes into out_queue if there is room; with a full queue
\* the call gives up after its 2 s timeout (possible at any time the queue is full: the comm
\* thread may be arbitrarily slow) or goes on waiting (SendE stays enabled after a TGet)
SendE == /\ upc = "send" /\ ((Sync(kind) /\ owed) => dev # "ok")
         /\ outq' = IF kind = "radio" /\ owed /\ Len(outq) < 1 THEN Append(outq, req) ELSE outq
         /\ owed' = FALSE
         /\ Log("sent", req)
         /\ upc' = "idle" /\ nops' = nops + 1
         /\ UNCHANGED <<cfgv, cbc, handle, fresh, thr, sp, tpc, cur, hs, dev, jam, fault,
                        req, sess, nreq, nidle, lostrow, lasto, nerr>>

\* ------------------------------------------------------------------ close()
\* what close() leaves behind; `failed` = a device call inside close() raised (and was swallowed)
\* `ended` = the comm thread is known to have ended (joined, or it is the caller and ends on return)
CloseCore(failed, ended) ==
    /\ handle' = IF Bug = "noDrop" THEN handle
                 ELSE IF Bug = "keepHandleOnError" /\ failed THEN handle
                 ELSE FALSE
    /\ thr' = IF thr = "none" THEN "none" ELSE IF ended THEN "done" ELSE thr
    /\ outq' = IF Bug = "keepOutQueue" THEN outq ELSE <<>>

\* close() waits for the comm thread (join).  radio: the thread ends at its next look at the stop
\* flag; usb: at the top of its loop, or when its pending read returns -- with an unplugged device
\* that read reports an error first (TErr); tcp: its threads end unseen
Joined == \/ thr \in {"none", "done"}
          \/ kind = "tcp"
          \/ kind = "usb" /\ (tpc = "tx" \/ dev # "gone")
          \/ Bug = "noJoin"

CloseB(f) == /\ Free /\ f \in (Faults \cap KindFaults(kind))
             /\ Log("closeb", 0)
             /\ fault' = f /\ upc' = "close"
             /\ sp' = IF fresh THEN sp ELSE TRUE
             /\ owed' = (CloseWrites(kind) /\ handle)
             /\ UNCHANGED <<cfgv, cbc, handle, fresh, thr, tpc, cur, hs, outq, dev, jam,
                            req, sess, nreq, nops, nidle, lostrow, lasto, nerr>>

CloseW == /\ upc = "close" /\ owed /\ dev = "ok"
          /\ Log("wr", 0) /\ owed' = FALSE
          /\ UNCHANGED <<cfgv, upc, cbc, handle, fresh, thr, sp, tpc, cur, hs, outq, dev, jam, fault,
                         req, sess, nreq, nops, nidle, lostrow, lasto, nerr>>

\* close() raises on an object that was never connected (usb, radio, tcp: no comm thread to stop; udp
\* returns), and (udp) when its own frame cannot be sent -- the socket is dropped all the same
CloseRaises == (fresh /\ kind # "udp") \/ (owed /\ dev # "ok")
CloseE == /\ upc = "close" /\ (owed => dev # "ok") /\ (fresh \/ Joined)
          /\ Log("close", IF CloseRaises THEN 0 ELSE 1)
          /\ IF fresh THEN UNCHANGED <<handle, thr, outq>>
             ELSE CloseCore(handle /\ (fault # "none" \/ (dev = "gone" /\ kind \in {"usb", "tcp"})), Bug # "noJoin")
          /\ fault' = "none" /\ owed' = FALSE
          /\ upc' = "idle" /\ nops' = nops + 1
          /\ UNCHANGED <<cfgv, cbc, fresh, sp, tpc, cur, hs, dev, jam,
                         req, sess, nreq, nidle, lostrow, lasto, nerr>>

\* ------------------------------------------------------------------ environment
Unplug == /\ Free /\ ~fresh
          /\ Log("unplug", 0)
          /\ dev' = "gone" /\ jam' = 0 /\ nops' = nops + 1
          /\ UNCHANGED <<cfgv, upc, cbc, handle, fresh, thr, sp, tpc, cur, hs, outq, fault, owed,
                         req, sess, nreq, nidle, lostrow, lasto, nerr>>

Jam == /\ Free /\ kind = "radio" /\ ~fresh
       /\ Log("jam", 0)
       /\ dev' = (IF dev = "gone" THEN "gone" ELSE "jam")
       /\ jam' = (IF dev = "gone" THEN 0 ELSE JamLen) /\ nops' = nops + 1
       /\ UNCHANGED <<cfgv, upc, cbc, handle, fresh, thr, sp, tpc, cur, hs, outq, fault, owed,
                      req, sess, nreq, nidle, lostrow, lasto, nerr>>

\* ------------------------------------------------------------------ radio comm thread
\* _RadioDriverThread.run at the grain of its blocking points:
\*   tx  : about to hand the frame `cur` to the dongle
\*   ack : the dongle has the frame (event wr) or refused it; the thread has not looked at the result yet
\*   get : acknowledged; about to take the next packet from out_queue
\* The stop flag is looked at where the code looks at it: at the top of the main loop, i.e. after
\* the handshake, after a frame that was not acknowledged (`continue`) and after out_queue.get().
SpCheck == IF sp THEN thr' = "done" /\ tpc' = "tx" ELSE thr' = thr /\ tpc' = "tx"

\* one transfer to the dongle: the device takes the frame (event wr); o = "A" acknowledged, "L" lost
TWr(o) == /\ kind = "radio" /\ thr = "run" /\ tpc = "tx" /\ cbc = "idle" /\ dev # "gone"
          /\ o = (IF dev = "jam" THEN "L" ELSE "A")
          /\ (cur = 0 /\ hs = 0) => nidle < MaxIdle
          /\ Log("wr", cur)
          /\ lasto' = o /\ tpc' = "ack"
          /\ nidle' = IF cur = 0 /\ hs = 0 THEN nidle + 1 ELSE nidle
          /\ jam' = IF dev = "jam" THEN jam - 1 ELSE jam
          /\ dev' = IF dev = "jam" /\ jam = 1 THEN "ok" ELSE dev
          /\ UNCHANGED <<cfgv, upc, cbc, handle, fresh, thr, sp, cur, hs, outq, fault, owed,
                         req, sess, nreq, nops, lostrow, nerr>>

\* the same with an unplugged dongle: the transfer fails, nothing is transmitted
TWx == /\ kind = "radio" /\ thr = "run" /\ tpc = "tx" /\ cbc = "idle" /\ dev = "gone"
       /\ lasto' = "N" /\ tpc' = "ack"
       /\ UNCHANGED <<cfgv, upc, cbc, handle, fresh, thr, sp, cur, hs, outq, dev, jam, fault, owed,
                      req, sess, nreq, nops, nidle, lostrow, nerr, h, mon>>

\* the thread looks at the result.  `Retries` lost frames in a row: the link error is reported from
\* here, in this thread (event lerr), and the callback may close the link (CbCloseB / CbCloseE)
TAck == /\ kind = "radio" /\ thr = "run" /\ tpc = "ack" /\ cbc = "idle"
        /\ IF hs > 0
           THEN /\ hs' = IF lasto = "A" /\ sl THEN 0 ELSE hs - 1
                /\ IF hs' = 0 THEN SpCheck ELSE tpc' = "tx" /\ thr' = thr
                /\ UNCHANGED <<cur, lostrow, nerr, cbc, h, mon>>
           ELSE /\ hs' = hs
                /\ IF lasto = "A"
                   THEN /\ cur' = 0 /\ lostrow' = 0 /\ tpc' = "get" /\ thr' = thr
                        /\ UNCHANGED <<nerr, cbc, h, mon>>
                   ELSE IF lasto = "L"
                   THEN /\ lostrow' = lostrow + 1 /\ cur' = cur
                        /\ IF lostrow + 1 = Retries
                           THEN /\ Log("lerr", 0) /\ nerr' = nerr + 1
                                /\ IF cbcl /\ upc = "idle"
                                   THEN cbc' = "pend" /\ tpc' = "tx" /\ thr' = thr
                                   ELSE cbc' = cbc /\ SpCheck
                           ELSE SpCheck /\ UNCHANGED <<nerr, cbc, h, mon>>
                   ELSE SpCheck /\ UNCHANGED <<cur, lostrow, nerr, cbc, h, mon>>
        /\ UNCHANGED <<cfgv, upc, handle, fresh, sp, outq, dev, jam, fault, owed,
                       req, sess, nreq, nops, nidle, lasto>>

\* next packet from out_queue (a = the request taken, 0 = the queue was empty: null frame next)
TGet(a) == /\ kind = "radio" /\ thr = "run" /\ tpc = "get" /\ cbc = "idle"
           /\ a = (IF outq # <<>> THEN Head(outq) ELSE 0)
           /\ cur' = a /\ SpCheck
           /\ outq' = IF outq # <<>> THEN Tail(outq) ELSE outq
           /\ UNCHANGED <<cfgv, upc, cbc, handle, fresh, sp, hs, dev, jam, fault, owed,
                          req, sess, nreq, nops, nidle, lostrow, lasto, nerr, h, mon>>

\* ------------------------------------------------------------------ usb comm thread: { stop flag?; read } for ever
\*   tpc = "tx"  : at the top of its loop (just started, or back from a read)
\*   tpc = "ack" : inside a read (which times out after 20 ms, returns data, or fails)
\* An unplugged device makes the read fail and the failure is reported (event lerr).
TRead == /\ kind = "usb" /\ thr = "run" /\ cbc = "idle" /\ ~sp /\ tpc = "tx"
         /\ tpc' = "ack"
         /\ UNCHANGED <<cfgv, upc, cbc, handle, fresh, thr, sp, cur, hs, outq, dev, jam, fault, owed,
                        req, sess, nreq, nops, nidle, lostrow, lasto, nerr, h, mon>>

\* the read comes back (timeout or data): back to the top of the loop
TRet == /\ kind = "usb" /\ thr = "run" /\ cbc = "idle" /\ tpc = "ack" /\ dev # "gone"
        /\ tpc' = "tx"
        /\ UNCHANGED <<cfgv, upc, cbc, handle, fresh, thr, sp, cur, hs, outq, dev, jam, fault, owed,
                       req, sess, nreq, nops, nidle, lostrow, lasto, nerr, h, mon>>

TErr == /\ kind = "usb" /\ thr = "run" /\ cbc = "idle" /\ tpc = "ack" /\ dev = "gone" /\ nerr < MaxErr
        /\ Log("lerr", 0)
        /\ nerr' = nerr + 1 /\ tpc' = "tx"
        /\ IF cbcl /\ upc = "idle"
           THEN cbc' = "pend" /\ thr' = thr
           ELSE cbc' = cbc /\ thr' = IF sp THEN "done" ELSE thr
        /\ UNCHANGED <<cfgv, upc, handle, fresh, sp, cur, hs, outq, dev, jam, fault, owed,
                       req, sess, nreq, nops, nidle, lostrow, lasto>>

\* ------------------------------------------------------------------ close() called by the link-error callback, i.e.
\* from inside the comm thread (it cannot join itself; it ends when the callback has returned)
CbCloseB == /\ cbc = "pend"
            /\ Log("closeb", 0)
            /\ cbc' = "close" /\ sp' = TRUE /\ fault' = "none"
            /\ UNCHANGED <<cfgv, upc, handle, fresh, thr, tpc, cur, hs, outq, dev, jam, owed,
                           req, sess, nreq, nops, nidle, lostrow, lasto, nerr>>

CbCloseE == /\ cbc = "close"
            /\ Log("close", 1)
            /\ CloseCore(handle /\ dev = "gone" /\ kind \in {"usb", "tcp"}, TRUE)
            /\ cbc' = "idle"
            /\ UNCHANGED <<cfgv, upc, fresh, sp, tpc, cur, hs, dev, jam, fault, owed,
                           req, sess, nreq, nops, nidle, lostrow, lasto, nerr>>

Next == \/ ConnB \/ ConnW \/ ConnE
        \/ SendB \/ SendWr \/ SendE
        \/ (\E f \in Faults : CloseB(f)) \/ CloseW \/ CloseE
        \/ Unplug \/ Jam
        \/ (\E o \in {"A", "L"} : TWr(o)) \/ TWx \/ TAck
        \/ (\E a \in 0..MaxReq : TGet(a))
        \/ TRead \/ TRet \/ TErr \/ CbCloseB \/ CbCloseE

Spec == Init /\ [][Next]_vars

\* ------------------------------------------------------------------ properties
\* C10 (closed links) on every reachable history
HistoryOK == mon.c = "ok"
\* ... where mon is the monitor of DriverCloseProps folded over h
FoldAgrees == mon = P!Fold(h)
\* the monitor form and the positional form of the two clauses say the same
MonitorAgrees == (mon.c = "ok") <=> (P!ClosedSilent(h) /\ P!NoCrossSession(h))
\* design invariant behind ClosedSilent: a closed object holds no device handle and has no comm thread
Quiet == (upc = "idle" /\ cbc = "idle" /\ mon.m.st = "closed") => (~handle /\ thr # "run")
TypeOK == /\ upc \in {"idle", "conn", "connx", "send", "close"} /\ cbc \in {"idle", "pend", "close"}
          /\ thr \in {"none", "run", "done"} /\ tpc \in {"tx", "ack", "get"} /\ lasto \in {"A", "L", "N"} /\ dev \in {"ok", "gone", "jam"}
          /\ Len(outq) <= 1 /\ hs \in 0..HsMax /\ cur \in 0..MaxReq
=============================================================================
