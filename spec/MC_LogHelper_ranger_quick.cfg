SPECIFICATION Spec
CONSTANTS
  Mode = "ranger"
  Rates = {100, 50}
  Scripts <- RScripts
  Vectors <- RVectors
  MaxData = 2
  MaxQ = 2
  Times = {100}
  LinkLoss = TRUE
  HasKalman = {TRUE}
  Bug = "none"
VIEW view
CHECK_DEADLOCK FALSE
INVARIANT TypeOK
INVARIANT PropsOK
INVARIANT NoHang
INVARIANT NoBlockLeft
