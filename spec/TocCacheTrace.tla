------------------------------ MODULE TocCacheTrace ------------------------------
(* Trace spec for C11.  One TLC run judges a whole batch of traces recorded from the real
   cflib TocCache / TocFetcher / Crazyflie connection set-up (harness/props/C11.py).

   monitor  (the verdict): the events rebuild the observable history -- which cache files exist
            in which state and what was stored in them, what the device announced, what the
            library ended up with -- and TocCacheProps is evaluated on it.  Nothing of the
            design spec is assumed.
   conform  (the binding): the same events must be explained, one action per event, by the
            design spec TocCache (Bug = "none").  conf = FALSE from the first unexplained event.

   Trace object: [id, tables: Seq(table), ev: Seq(event)];  tables are referred to by index
   (0 = the empty table).  Checksums are 8-hex-digit strings, directories "A"/"B"/"none". *)
EXTENDS Naturals, Sequences, FiniteSets, TLC, Json, IOUtils

Traces == JsonDeserialize(IOEnv.TRACE_FILE)

VARIABLES tid, l,
          mro, mrw, mfiles, mrobase, mdev, mfetched, mraised, mfs, mpend, mo,   \* monitor
          bad, badAt,
          conf, confAt,
          ro, rw, files, known, stage, kind, dev, toc, ret, wdir, fsnap, obsL, obsP, roBase,
          gone, other, nconn, ncrash, nenv, nother                              \* design spec

\* constants of the design spec (the actions used here take their data from the events)
Crcs == {}
CrcSeq == <<>>
LogTables == {}
ParamTables == {}
FLen == 2
Alias == [c \in {} |-> c]
Bug == "none"
MaxConnect == 1000000
MaxCrash == 1000000
MaxEnv == 1000000
MaxOther == 1000000
OtherTables == {}

D == INSTANCE TocCache
P == INSTANCE TocCacheProps

specvars == <<ro, rw, files, known, stage, kind, dev, toc, ret, wdir, fsnap, obsL, obsP, roBase,
              gone, other, nconn, ncrash, nenv, nother>>
monvars == <<mro, mrw, mfiles, mrobase, mdev, mfetched, mraised, mfs, mpend, mo>>

T == Traces[tid]
Ev == T.ev[l]
Tab(i) == IF i = 0 THEN <<>> ELSE T.tables[i]
ToSet(s) == {s[i] : i \in DOMAIN s}
Pair(a) == <<a[1], a[2]>>
Pairs(s) == [i \in DOMAIN s |-> Pair(s[i])]

NoObs == [valid |-> FALSE]
KBool == [log |-> FALSE, param |-> FALSE]
MDirs == {mro, mrw} \ {"none"}
EmptyF == [x \in {} |-> 0]
\* monitor's files: <<dir, name>> -> [st: "complete"|"damaged", tab, under]; under = the checksum given to
\* the insert() call whose bytes these are.  What the property sees: a complete file under another name
\* than it was stored under is "foreign"
Dmg == [st |-> "damaged", tab |-> <<>>, under |-> ""]
PV(f) == [x \in DOMAIN f |-> [st |-> IF f[x].st = "complete" /\ f[x].under # x[2] THEN "foreign" ELSE f[x].st,
                              tab |-> f[x].tab]]

Init == /\ tid \in 1..Len(Traces)
        /\ l = 1
        /\ mro = "none" /\ mrw = "none" /\ mfiles = EmptyF /\ mrobase = {}
        /\ mdev = D!NoDev /\ mfetched = KBool /\ mraised = KBool
        /\ mfs = [log |-> EmptyF, param |-> EmptyF]
        /\ mpend = << <<>>, <<>> >>              \* table handed to insert() by us (1) / by the other cache object (2)
        /\ mo = [log |-> NoObs, param |-> NoObs]
        /\ bad = "ok" /\ badAt = 0
        /\ conf = TRUE /\ confAt = 0
        /\ D!Init

\* ---- conformance idiom
Conform(A) == IF conf /\ ENABLED A
              THEN A /\ UNCHANGED <<conf, confAt>>
              ELSE /\ conf' = FALSE /\ confAt' = (IF conf THEN l ELSE confAt)
                   /\ UNCHANGED specvars
\* an event that corresponds to no design action but must agree with the design state
ConformCond(c) == /\ UNCHANGED specvars
                  /\ IF conf /\ ~c THEN conf' = FALSE /\ confAt' = l ELSE UNCHANGED <<conf, confAt>>

Fail(c) == IF bad = "ok" /\ c # "ok" THEN bad' = c /\ badAt' = l ELSE UNCHANGED <<bad, badAt>>
FirstBad(s) == IF \E i \in DOMAIN s : s[i] # "ok"
               THEN s[CHOOSE i \in DOMAIN s : s[i] # "ok" /\ \A j \in 1..(i - 1) : s[j] = "ok"]
               ELSE "ok"

\* ---- process start / end
MStart == /\ Ev.e = "start"
          /\ mro' = Ev.ro /\ mrw' = Ev.rw /\ mrobase' = ToSet(Ev.robase)
          /\ UNCHANGED <<mfiles, mdev, mfetched, mraised, mfs, mpend, mo, bad, badAt>>
          /\ Conform(D!Start(Ev.ro, Ev.rw, Pairs(Ev.known)))

\* the process is gone (exit or crash): the read-only directory is compared with its state at start
MEnd == /\ Ev.e \in {"exit", "crash"}
        /\ Fail(IF mro # "none" THEN P!RoClause(mrobase, ToSet(Ev.roafter)) ELSE "ok")
        /\ mro' = "none" /\ mrw' = "none" /\ mrobase' = {}
        /\ mfetched' = KBool /\ mraised' = KBool /\ mo' = [log |-> NoObs, param |-> NoObs]
        /\ UNCHANGED <<mfiles, mdev, mfs, mpend>>
        /\ IF Ev.e = "exit" THEN Conform(D!Exit) ELSE Conform(D!Crash)

\* ---- connection
MConnect == /\ Ev.e = "connect"
            /\ mdev' = [log |-> [tab |-> Tab(Ev.lt), crc |-> Ev.lc], param |-> [tab |-> Tab(Ev.pt), crc |-> Ev.pc]]
            /\ mfetched' = KBool /\ mraised' = KBool /\ mo' = [log |-> NoObs, param |-> NoObs]
            /\ UNCHANGED <<mro, mrw, mfiles, mrobase, mfs, mpend, bad, badAt>>
            /\ Conform(D!Connect(Tab(Ev.lt), Ev.lc, Tab(Ev.pt), Ev.pc))

\* None and a decoded-but-falsy value are the same answer to the only caller (`if (cache_data)`)
MissKind(k) == IF k = "falsy" THEN "none" ELSE k

\* TocCache.fetch returned (ret = "none" | "falsy" | "tab" | "other") or raised ("raise")
MFetch == /\ Ev.e = "fetch"
          /\ mfetched' = [mfetched EXCEPT ![Ev.kind] = TRUE]
          /\ mraised' = [mraised EXCEPT ![Ev.kind] = (Ev.ret = "raise")]
          /\ mfs' = [mfs EXCEPT ![Ev.kind] = PV(mfiles)]
          /\ UNCHANGED <<mro, mrw, mfiles, mrobase, mdev, mpend, mo, bad, badAt>>
          /\ Conform(D!Fetch /\ kind = Ev.kind /\ D!Crc = Ev.crc /\ MissKind(ret'.k) = MissKind(Ev.ret)
                     /\ (Ev.ret = "tab" => ret'.tab = Tab(Ev.tab)))

\* the downloaded table is handed to TocCache.insert
MDownload == /\ Ev.e = "download"
             /\ mpend' = [mpend EXCEPT ![1] = Tab(Ev.tab)]
             /\ UNCHANGED <<mro, mrw, mfiles, mrobase, mdev, mfetched, mraised, mfs, mo, bad, badAt>>
             /\ Conform(D!Download /\ kind = Ev.kind /\ toc'[Ev.kind] = Tab(Ev.tab))

RoBase == mrobase' = IF Ev.rb THEN ToSet(Ev.robase) ELSE mrobase

\* the other cache object on the directory hands a table to ITS insert()
MOdl == /\ Ev.e = "odl"
        /\ mpend' = [mpend EXCEPT ![2] = Tab(Ev.tab)]
        /\ UNCHANGED <<mro, mrw, mfiles, mrobase, mdev, mfetched, mraised, mfs, mo, bad, badAt>>
        /\ ConformCond(TRUE)

\* open(name, 'w') succeeded: the file exists and is empty (who = 1: our process, 2: the other one)
MIBegin == /\ Ev.e = "ibegin"
           /\ mfiles' = (<<Ev.dir, Ev.crc>> :> Dmg) @@ mfiles
           /\ RoBase
           /\ UNCHANGED <<mro, mrw, mdev, mfetched, mraised, mfs, mpend, mo, bad, badAt>>
           /\ IF Ev.who = 1 THEN Conform(D!InsertBegin /\ wdir' = Ev.dir /\ D!Crc = Ev.crc)
              ELSE Conform(D!OtherBegin(<<Ev.dir, Ev.crc>>, mpend[2]))

\* k of the `of` bytes the code writes are on disk; icrc = the checksum that insert() call was given
MWByte == /\ Ev.e = "wbyte"
          /\ mfiles' = (<<Ev.dir, Ev.crc>> :> (IF Ev.k = Ev.of
                                                THEN [st |-> "complete", tab |-> mpend[Ev.who], under |-> Ev.icrc]
                                                ELSE Dmg)) @@ mfiles
          /\ RoBase
           /\ UNCHANGED <<mro, mrw, mdev, mfetched, mraised, mfs, mpend, mo, bad, badAt>>
          /\ IF Ev.who = 1
             THEN Conform(D!WriteByte /\ wdir = Ev.dir /\ D!Crc = Ev.crc /\ files'[<<Ev.dir, Ev.crc>>].cut = Ev.cut)
             ELSE Conform(D!OtherWrite /\ other.x = <<Ev.dir, Ev.crc>> /\ files'[<<Ev.dir, Ev.crc>>].cut = Ev.cut)

\* os.replace / os.rename inside the cache code: the target name now holds what the source held
MRename == /\ Ev.e = "rename"
           /\ LET src == <<Ev.dir, Ev.from>> dst == <<Ev.dir, Ev.crc>> IN
              mfiles' = IF src \in DOMAIN mfiles
                        THEN (dst :> mfiles[src]) @@ [y \in DOMAIN mfiles \ {src} |-> mfiles[y]]
                        ELSE mfiles
           /\ RoBase
           /\ UNCHANGED <<mro, mrw, mdev, mfetched, mraised, mfs, mpend, mo, bad, badAt>>
           /\ ConformCond(FALSE)                   \* the design spec (Bug = "none") stores without renaming

MIEnd == /\ Ev.e = "iend"
         /\ UNCHANGED <<monvars, bad, badAt>>
         /\ Conform(D!InsertEnd /\ known' = Pairs(Ev.known))

MOEnd == /\ Ev.e = "oend"
         /\ UNCHANGED <<monvars, bad, badAt>>
         /\ Conform(D!OtherEnd)

\* open(name, 'w') raised inside insert() and insert() returned
MIFail == /\ Ev.e = "ifail"
          /\ UNCHANGED <<monvars, bad, badAt>>
          /\ Conform(D!InsertFail)

MNoInsert == /\ Ev.e = "noinsert"
             /\ UNCHANGED <<monvars, bad, badAt>>
             /\ Conform(D!NoInsert)

\* the set-up of one table finished (TocFetcher._toc_fetch_finished)
ObsOf(k, used, got, req) ==
    [crc |-> mdev[k].crc, dirs |-> MDirs, used |-> used, raised |-> mraised[k],
     downloaded |-> \A i \in 0..(Len(mdev[k].tab) - 1) : i \in ToSet(req),
     done |-> TRUE, got |-> got, dev |-> mdev[k].tab]

MDone == /\ Ev.e = "done"
         /\ LET o == ObsOf(Ev.kind, Ev.used, Tab(Ev.got), Ev.req) IN
            /\ mo' = [mo EXCEPT ![Ev.kind] = [valid |-> TRUE, o |-> o]]
            /\ Fail(P!SetupClause(o, mfs[Ev.kind]))
         /\ UNCHANGED <<mro, mrw, mfiles, mrobase, mdev, mfetched, mraised, mfs, mpend>>
         /\ IF Ev.used THEN Conform(D!DoneUsed /\ kind = Ev.kind /\ toc'[Ev.kind] = Tab(Ev.got))
            ELSE Conform(D!DoneDl /\ kind = Ev.kind /\ toc[Ev.kind] = Tab(Ev.got))

\* `connected` was reported; the tables held by the Crazyflie object at that moment
MConnected == /\ Ev.e = "connected"
              /\ LET cl(k, t) == IF mo[k].valid THEN P!SetupClause([mo[k].o EXCEPT !.got = t], mfs[k])
                                 ELSE "ok"
                 IN Fail(FirstBad(<<cl("log", Tab(Ev.lt)), cl("param", Tab(Ev.pt))>>))
              /\ UNCHANGED monvars
              /\ ConformCond(stage = "connected" /\ toc = [log |-> Tab(Ev.lt), param |-> Tab(Ev.pt)])

\* the connection attempt has come to rest (nothing runnable up to the horizon)
MSettle == /\ Ev.e = "settle"
           /\ LET un(k) == [crc |-> mdev[k].crc, dirs |-> MDirs, used |-> FALSE, raised |-> mraised[k],
                            downloaded |-> FALSE, done |-> FALSE, got |-> <<>>, dev |-> mdev[k].tab]
                  cl(k) == IF mfetched[k] /\ ~mo[k].valid THEN P!MissClause(un(k), mfs[k]) ELSE "ok"
                  cc == IF mo["log"].valid /\ mo["param"].valid
                        THEN P!ConnectionClause(mo["log"].o, mo["param"].o, mfs["log"], mfs["param"], Ev.connected)
                        ELSE "ok"
              IN Fail(FirstBad(<<cl("log"), cl("param"), cc>>))
           /\ UNCHANGED monvars
           /\ ConformCond(Ev.connected <=> stage = "connected")

MClose == /\ Ev.e = "close"
          /\ mfetched' = KBool /\ mraised' = KBool /\ mo' = [log |-> NoObs, param |-> NoObs]
          /\ UNCHANGED <<mro, mrw, mfiles, mrobase, mdev, mfs, mpend, bad, badAt>>
          /\ Conform(D!Close)

\* ---- environment: between processes, or while a TocCache object lives (idle / before a look-up).
\*      rb = a process is alive and has a read-only directory: its content after the environment's
\*      change is the new base of the never-written comparison
X == <<Ev.dir, Ev.crc>>
MCut == /\ Ev.e = "cut"
        /\ mfiles' = IF Ev.k < Ev.of THEN [mfiles EXCEPT ![X] = Dmg] ELSE mfiles
        /\ RoBase
        /\ UNCHANGED <<mro, mrw, mdev, mfetched, mraised, mfs, mpend, mo, bad, badAt>>
        /\ IF Ev.k < Ev.of THEN Conform(D!Truncate(X, Ev.cut)) ELSE ConformCond(TRUE)
MGarbage == /\ Ev.e = "garbage"
            /\ mfiles' = (X :> Dmg) @@ mfiles
            /\ RoBase
            /\ UNCHANGED <<mro, mrw, mdev, mfetched, mraised, mfs, mpend, mo, bad, badAt>>
            /\ Conform(D!Corrupt(X, Ev.flavour))
MRemove == /\ Ev.e = "remove"
           /\ mfiles' = [y \in DOMAIN mfiles \ {X} |-> mfiles[y]]
           /\ RoBase
           /\ UNCHANGED <<mro, mrw, mdev, mfetched, mraised, mfs, mpend, mo, bad, badAt>>
           /\ Conform(D!Remove(X))
MCopy == /\ Ev.e = "copy"
         /\ mfiles' = IF X \in DOMAIN mfiles THEN (<<Ev.to, Ev.crc>> :> mfiles[X]) @@ mfiles ELSE mfiles
         /\ RoBase
         /\ UNCHANGED <<mro, mrw, mdev, mfetched, mraised, mfs, mpend, mo, bad, badAt>>
         /\ Conform(D!Copy(X, Ev.to))

\* the whole directory is removed / the name of a cache file is taken by a directory
MRmdir == /\ Ev.e = "rmdir"
          /\ mfiles' = [y \in {z \in DOMAIN mfiles : z[1] # Ev.dir} |-> mfiles[y]]
          /\ RoBase
          /\ UNCHANGED <<mro, mrw, mdev, mfetched, mraised, mfs, mpend, mo, bad, badAt>>
          /\ Conform(D!RemoveDir(Ev.dir))
MBlock == /\ Ev.e = "blockname"
          /\ mfiles' = (X :> Dmg) @@ mfiles
          /\ RoBase
          /\ UNCHANGED <<mro, mrw, mdev, mfetched, mraised, mfs, mpend, mo, bad, badAt>>
          /\ Conform(D!BlockName(X))

Step == /\ l <= Len(T.ev)
        /\ l' = l + 1 /\ UNCHANGED tid
        /\ \/ MStart \/ MEnd \/ MConnect \/ MFetch \/ MDownload \/ MIBegin \/ MWByte \/ MIEnd
           \/ MNoInsert \/ MDone \/ MConnected \/ MSettle \/ MClose
           \/ MCut \/ MGarbage \/ MRemove \/ MCopy \/ MRmdir \/ MBlock
           \/ MOdl \/ MRename \/ MOEnd \/ MIFail

Finish == /\ l = Len(T.ev) + 1
          /\ l' = l + 1
          /\ PrintT(<<"VERDICT", T.id, bad, badAt, conf, confAt>>)
          /\ UNCHANGED <<tid, monvars, bad, badAt, conf, confAt, specvars>>

Next == Step \/ Finish
Spec == Init /\ [][Next]_<<tid, l, monvars, bad, badAt, conf, confAt, specvars>>
=============================================================================
