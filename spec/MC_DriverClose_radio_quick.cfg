SPECIFICATION Spec
CONSTANTS
  Kinds = {"radio"}
  CbModes = {TRUE, FALSE}
  SlModes = {TRUE, FALSE}
  Bug = "none"
  Faults = {"none", "f1", "f2"}
  MaxOps = 5
  MaxSess = 3
  MaxReq = 3
  MaxIdle = 2
  MaxErr = 2
  HsMax = 2
  Retries = 2
  JamLen = 3
  KeepHistory = TRUE
INVARIANT HistoryOK
INVARIANT Quiet
INVARIANT TypeOK
VIEW NoHistory
CHECK_DEADLOCK FALSE
