------------------------------ MODULE LogBlocksTrace ------------------------------
(* Trace spec for C05.  One TLC run judges a whole batch of traces recorded from the real
   Log / LogConfig / SyncLogger inside a real Crazyflie on sim:// (harness/props/C05.py).

   A trace:  [id, toc : Seq([n, t, i]), cfgs : <<cfg1, cfg2>> (what the harness configured through
   LogConfig()/add_variable/add_memory), sync : BOOLEAN, synccs : Seq(c), idle_end : BOOLEAN,
   ev : Seq(event)].  Events (one per user call / per packet the dispatcher handed to the library):
     add      c, via, res, vars (LogConfig.variables after the call), ldef, id, before, after, ncbs, st
     start|stop|delete   c, via, res, sent (settings messages the device received meanwhile), before, after, ncbs, st
     ack      cmd, id, st_ack, sent, before, after, cbs : Seq([c, w, v]), st
     data     wire (bytes the device sent), types (fetch types it encoded with), gots : Seq([c, ts, vals, nkeys]), ...
     disc (close_link: before, after, sync, drained, st)   reconnect (open_link: before, after, st)   inject (status)   drop
     sbegin / sconnected / sfail (SyncLogger.connect entered / returned / raised)   sample   yield (s : sample)   sstop (StopIteration)   disc, sfail
   before/after = [added, started] of both LogConfig objects; st = projection of the real objects
   onto the design-spec variables after the event.

   monitor (the verdict): rebuilds the observable history and evaluates LogBlocksProps; first failing
            clause in bad/badAt.  Nothing of the design spec is assumed.
   conform (the binding): the same event must be a step of the LogBlocks action with the logged
            parameters AND lead to the logged projection.  cok = FALSE from the first event that is not. *)
EXTENDS Integers, Sequences, FiniteSets, TLC, Json, IOUtils

Traces == JsonDeserialize(IOEnv.TRACE_FILE)

VARIABLES tid, l,
          mref, mhasref, mlastok, macc, mid, mflags, mcfg, msess,          \* monitor: blocks
          mlisten, mconn, msamples, mlsamples, myields, mdisc, mstopped, mearly, mdrained, muser,   \* monitor: SyncLogger
          bad, badAt, cok, cokAt,
          toc, conf, phase, cur, tpl, lvars, ldef, valid, cid, hascf, added, started, pending, blocks,
          idctr, link, dev, acks, inject, sync, nops, nfaults, ndata, nlate, layout, ref, hasref, lastok, obs

\* which pre-fix behaviours the code under test has was probed by the harness (binding only; the
\* monitor does not depend on it)
TraceBugs == (IF IOEnv.C05_DUP = "1" THEN {"dup_readd"} ELSE {}) \cup
             (IF IOEnv.C05_MEM = "1" THEN {"mem_raises"} ELSE {}) \cup
             (IF IOEnv.C05_PARTIAL = "1" THEN {"partial_resolve"} ELSE {})

D == INSTANCE LogBlocks WITH NC <- 2, TocC <- <<>>, VarAlpha <- {}, BasicAlpha <- {}, MaxFree <- 0,
                             MaxBasic <- 0, MaxUniform <- 0, Periods <- {}, Statuses <- {},
                             MaxOps <- 1000000, MaxFaults <- 1000000, MaxData <- 1000000, MaxLate <- 1000000, TocAlts <- {},
                             IdMod <- 255, Bugs <- TraceBugs, WithSync <- FALSE
P == INSTANCE LogBlocksProps

Cs == 1..2
T == Traces[tid]
Ev == T.ev[l]
CurToc == T.tocs[msess]          \* the device table of the current session

monvars == <<mref, mhasref, mlastok, macc, mid, mflags, mcfg, msess, mlisten, mconn, msamples, mlsamples, myields, mdisc, mstopped,
             mearly, mdrained, muser>>
specvars == <<toc, conf, phase, cur, tpl, lvars, ldef, valid, cid, hascf, added, started, pending, blocks,
              idctr, link, dev, acks, inject, sync, nops, nfaults, ndata, nlate, layout, ref, hasref, lastok, obs>>

IsDefault(v) == v.k = "toc" /\ v.f = 0

Init == /\ tid \in 1..Len(Traces) /\ l = 1
        /\ mref = [c \in Cs |-> <<>>] /\ mhasref = [c \in Cs |-> FALSE]
        /\ mlastok = [c \in Cs |-> FALSE] /\ macc = [c \in Cs |-> FALSE] /\ mid = [c \in Cs |-> 0]
        /\ mflags = [c \in Cs |-> [added |-> FALSE, started |-> FALSE]]
        /\ mcfg = [c \in Cs |-> [period |-> Traces[tid].cfgs[c].period, vars |-> Traces[tid].cfgs[c].vars]]
        /\ msess = 1
        /\ mlisten = FALSE /\ mconn = FALSE /\ msamples = <<>> /\ mlsamples = <<>> /\ myields = <<>> /\ mdisc = FALSE /\ mstopped = FALSE
        /\ mearly = FALSE /\ mdrained = FALSE /\ muser = FALSE
        /\ bad = "ok" /\ badAt = 0 /\ cok = TRUE /\ cokAt = 0
        /\ toc = Traces[tid].tocs[1]
        /\ conf = [c \in Cs |-> [period |-> Traces[tid].cfgs[c].period, vars |-> Traces[tid].cfgs[c].vars]]
        /\ phase = "run" /\ cur = 2 /\ tpl = [c \in Cs |-> <<>>]
        /\ lvars = [c \in Cs |-> SelectSeq(Traces[tid].cfgs[c].vars, LAMBDA v : ~IsDefault(v))]
        /\ ldef = [c \in Cs |-> LET d == SelectSeq(Traces[tid].cfgs[c].vars, IsDefault)
                                IN [j \in DOMAIN d |-> d[j].n]]
        /\ valid = [c \in Cs |-> FALSE] /\ cid = [c \in Cs |-> 0] /\ hascf = [c \in Cs |-> FALSE]
        /\ added = [c \in Cs |-> FALSE] /\ started = [c \in Cs |-> FALSE]
        /\ pending = [c \in Cs |-> 0]
        /\ blocks = <<>> /\ idctr = 1 /\ link = TRUE
        /\ dev = D!EmptyFn /\ acks = <<>> /\ inject = 0
        /\ sync = D!Sync0
        /\ nops = 0 /\ nfaults = 0 /\ ndata = 0 /\ nlate = 0
        /\ layout = [c \in Cs |-> [set |-> FALSE, lt |-> <<>>]]
        /\ ref = [c \in Cs |-> <<>>] /\ hasref = [c \in Cs |-> FALSE] /\ lastok = [c \in Cs |-> FALSE]
        /\ obs = D!NoObs

Conform(A) == IF cok /\ ENABLED A
              THEN A /\ UNCHANGED <<cok, cokAt>>
              ELSE /\ cok' = FALSE /\ cokAt' = (IF cok THEN l ELSE cokAt)
                   /\ UNCHANGED specvars

Fail(c) == IF bad = "ok" /\ c # "ok" THEN bad' = c /\ badAt' = l ELSE UNCHANGED <<bad, badAt>>

\* ---- projection of the real objects after the event == the spec's post-state
DevEq(d, e) == /\ DOMAIN d = {e[j].id : j \in DOMAIN e}
               /\ \A j \in DOMAIN e : d[e[j].id] = [vars |-> e[j].vars, started |-> e[j].started,
                                                     period |-> e[j].period]
StMatch == /\ added' = [c \in Cs |-> Ev.after[c].added]
           /\ started' = [c \in Cs |-> Ev.after[c].started]
           /\ pending' = Ev.st.pending /\ valid' = Ev.st.valid /\ cid' = Ev.st.cid
           /\ hascf' = Ev.st.hascf /\ blocks' = Ev.st.blocks /\ idctr' = Ev.st.idctr
           /\ acks' = Ev.st.acks /\ inject' = Ev.st.inject
           /\ DevEq(dev', Ev.st.dev)

Quiet == IF Ev.before # mflags THEN "FlagsChangedWithoutAck"
         ELSE P!QuietClause(Ev.before, Ev.after, Ev.ncbs)

\* ---- add_config
MAdd ==
    /\ Ev.e = "add"
    /\ LET c == Ev.c
           ok == Ev.res = "ok"
           a == P!AddClause(mcfg[c], CurToc, ~mhasref[c], mhasref[c] /\ ~macc[c], mref[c], Ev.res, Ev.vars)
       IN /\ Fail(IF Ev.before # mflags THEN "FlagsChangedWithoutAck" ELSE IF a # "ok" THEN a ELSE Quiet)
          /\ mref' = IF ok /\ ~mhasref[c] THEN [mref EXCEPT ![c] = Ev.vars] ELSE mref
          /\ mhasref' = IF ok THEN [mhasref EXCEPT ![c] = TRUE] ELSE mhasref
          /\ mlastok' = [mlastok EXCEPT ![c] = ok]
          /\ macc' = IF ok THEN [macc EXCEPT ![c] = TRUE] ELSE macc
          /\ mid' = IF ok THEN [mid EXCEPT ![c] = Ev.id] ELSE mid
          /\ mflags' = Ev.after
          /\ UNCHANGED <<mcfg, msess, mlisten, mconn, msamples, mlsamples, myields, mdisc, mstopped, mearly, mdrained, muser>>
          /\ Conform(/\ IF Ev.via = "sync" THEN D!SyncConnect1 ELSE D!AddConfig(c)
                     /\ obs'.res = Ev.res
                     /\ P!Keys(lvars'[c]) = P!Keys(Ev.vars) /\ ldef'[c] = Ev.ldef
                     /\ StMatch)

\* ---- LogConfig.start / stop / delete
MOp ==
    /\ Ev.e \in {"start", "stop", "delete"}
    /\ LET c == Ev.c
           k == P!CreateClause(mref[c], CurToc, mid[c], Ev.sent)
       IN /\ Fail(IF Ev.before # mflags THEN "FlagsChangedWithoutAck"
                  ELSE IF ~mlastok[c] /\ Ev.sent # <<>> THEN "SentForRejected"
                  ELSE IF Ev.e = "start" /\ mlastok[c] /\ mhasref[c] /\ ~Ev.before[c].added /\ k # "ok" THEN k
                  ELSE Quiet)
          /\ mflags' = Ev.after
          /\ UNCHANGED <<mref, mhasref, mlastok, macc, mid, mcfg, msess, mlisten, mconn, msamples, mlsamples, myields, mdisc, mstopped,
                         mearly, mdrained, muser>>
          /\ Conform(/\ CASE Ev.e = "start" -> (IF Ev.via = "sync" THEN D!SyncConnect2 ELSE D!Start(c))
                          [] Ev.e = "stop" -> D!Stop(c)
                          [] OTHER -> D!Delete(c)
                     /\ obs'.res = Ev.res /\ obs'.sent = Ev.sent
                     /\ StMatch)

\* ---- one settings acknowledgement through Log._new_packet_cb
CbsOf(c) == LET m == SelectSeq(Ev.cbs, LAMBDA x : x.c = c) IN [j \in DOMAIN m |-> <<m[j].w, m[j].v>>]
FirstBad(f) == IF \E c \in Cs : f[c] # "ok" THEN f[CHOOSE c \in Cs : f[c] # "ok"] ELSE "ok"
MAck ==
    /\ Ev.e = "ack"
    /\ Fail(IF Ev.before # mflags THEN "FlagsChangedWithoutAck"
            ELSE FirstBad([c \in Cs |-> P!AckClause(Ev.cmd, Ev.st_ack, macc[c] /\ mid[c] = Ev.id,
                                                    Ev.before[c], Ev.after[c], CbsOf(c))]))
    /\ mflags' = Ev.after
    /\ UNCHANGED <<mref, mhasref, mlastok, macc, mid, mcfg, msess, mlisten, mconn, msamples, mlsamples, myields, mdisc, mstopped,
                   mearly, mdrained, muser>>
    /\ Conform(/\ acks # <<>> /\ Head(acks) = [cmd |-> Ev.cmd, id |-> Ev.id, st |-> Ev.st_ack]
               /\ D!Deliver
               /\ obs'.sent = Ev.sent
               /\ obs'.cbs = [j \in DOMAIN Ev.cbs |-> <<Ev.cbs[j].c, Ev.cbs[j].w, Ev.cbs[j].v>>]
               /\ StMatch)

\* ---- one log data packet through Log._new_packet_cb
MData ==
    /\ Ev.e = "data"
    /\ LET id == Ev.wire[1]
           mine == IF \E c \in Cs : macc[c] /\ mid[c] = id
                   THEN CHOOSE c \in Cs : macc[c] /\ mid[c] = id ELSE 0
           d == P!PacketClause(Ev.types, Ev.wire, mine, Ev.gots, IF mine = 0 THEN 0 ELSE Len(mref[mine]))
       IN /\ Fail(IF Ev.before # mflags THEN "FlagsChangedWithoutAck" ELSE IF d # "ok" THEN d ELSE Quiet)
          /\ mflags' = Ev.after
          /\ UNCHANGED <<mref, mhasref, mlastok, macc, mid, mcfg, msess, mlisten, mconn, msamples, mlsamples, myields, mdisc, mstopped, mearly,
                         mdrained, muser>>
          /\ Conform(/\ D!Data(id, SubSeq(Ev.wire, 2, 4), SubSeq(Ev.wire, 5, Len(Ev.wire)))
                     /\ obs'.types = Ev.types /\ obs'.gots = Ev.gots
                     /\ StMatch)

\* ---- close_link (a SyncLogger whose callback is registered sees Crazyflie.disconnected), then open_link
MDisc ==
    /\ Ev.e = "disc"
    /\ Fail(IF Ev.before # mflags THEN "FlagsChangedWithoutAck" ELSE "ok")
    /\ mflags' = Ev.after
    /\ mdisc' = (mdisc \/ Ev.sync)
    /\ mdrained' = IF Ev.sync /\ ~mdisc THEN Ev.drained ELSE mdrained
    /\ mlisten' = IF Ev.sync THEN FALSE ELSE mlisten
    /\ UNCHANGED <<mref, mhasref, mlastok, macc, mid, mcfg, msess, mconn, msamples, mlsamples, myields, mstopped, mearly, muser>>
    /\ Conform(D!CloseLink /\ StMatch)
MReconnect ==
    /\ Ev.e = "reconnect"
    /\ Fail(IF Ev.before # mflags THEN "FlagsChangedWithoutAck" ELSE "ok")
    /\ macc' = [c \in Cs |-> FALSE]
    /\ msess' = msess + 1
    /\ mflags' = Ev.after
    /\ UNCHANGED <<mref, mhasref, mlastok, mid, mcfg, mlisten, mconn, msamples, mlsamples, myields, mdisc, mstopped, mearly, mdrained, muser>>
    /\ Conform(D!OpenLink(T.tocs[msess + 1]) /\ StMatch)

\* add_variable / add_memory on a LogConfig that was added before: the next successful add_config fixes the
\* variable list anew
MAddVar ==
    /\ Ev.e = "addvar"
    /\ mcfg' = [mcfg EXCEPT ![Ev.c].vars = Append(@, Ev.v)]
    /\ mhasref' = [mhasref EXCEPT ![Ev.c] = FALSE]
    /\ UNCHANGED <<bad, badAt, mref, mlastok, macc, mid, mflags, msess, mlisten, mconn, msamples, mlsamples, myields,
                   mdisc, mstopped, mearly, mdrained, muser>>
    /\ Conform(D!AddVarLate(Ev.c, Ev.v))

MEnv ==
    /\ Ev.e \in {"inject", "drop"}
    /\ UNCHANGED <<bad, badAt>> /\ UNCHANGED monvars
    /\ Conform(IF Ev.e = "inject" THEN D!Inject(Ev.status) ELSE D!DropAck)

\* ---- SyncLogger
\* One SyncLogger object may be connected several times (sbegin ... sconnected|sfail).  The flags of a
\* connection (disconnect seen, iteration ended, ...) are judged when the next connect() begins and at the end
\* of the trace; the sample sequences run on over all connections of the object (the queue is never cleared).
ConnClause(drained) == IF T.sync /\ mconn
                       THEN P!SyncClause(mlsamples, msamples, myields, mdisc, mstopped, mearly, drained)
                       ELSE "ok"
MSBegin == /\ Ev.e = "sbegin"
           /\ Fail(ConnClause(mdisc /\ mdrained))
           /\ mlisten' = TRUE /\ mconn' = FALSE /\ mdisc' = FALSE /\ mstopped' = FALSE /\ mearly' = FALSE
           /\ mdrained' = FALSE /\ muser' = FALSE
           /\ UNCHANGED <<cok, cokAt, mref, mhasref, mlastok, macc, mid, mflags, mcfg, msess, msamples, mlsamples, myields>>
           /\ UNCHANGED specvars
\* connect() returned / raised; "sdisc": the user called SyncLogger.disconnect()
MSConn == /\ Ev.e \in {"sconnected", "sfail", "sdisc"}
          /\ mlisten' = (Ev.e = "sconnected")
          /\ mconn' = (mconn \/ Ev.e = "sconnected")
          /\ muser' = (muser \/ Ev.e = "sdisc")
          /\ UNCHANGED <<bad, badAt, cok, cokAt, mref, mhasref, mlastok, macc, mid, mflags, mcfg, msess, msamples, mlsamples, myields,
                         mdisc, mstopped, mearly, mdrained>>
          /\ UNCHANGED specvars
\* "sample": data_received_cb delivered a sample of one of the SyncLogger's configurations (logged by an
\* observer registered before the logger's callback); "lsample": the logger's own callback got it
MSample == /\ Ev.e \in {"sample", "lsample"}
           /\ msamples' = IF Ev.e = "sample" /\ mlisten /\ (\E j \in DOMAIN T.synccs : T.synccs[j] = Ev.s.c)
                           THEN Append(msamples, Ev.s) ELSE msamples
           /\ mlsamples' = IF Ev.e = "lsample" THEN Append(mlsamples, Ev.s) ELSE mlsamples
           /\ UNCHANGED <<bad, badAt, cok, cokAt, mref, mhasref, mlastok, macc, mid, mflags, mcfg, msess, mlisten, mconn, myields,
                          mdisc, mstopped, mearly, mdrained, muser>>
           /\ UNCHANGED specvars
MYield == /\ Ev.e = "yield"
          /\ myields' = Append(myields, Ev.s)
          /\ UNCHANGED <<bad, badAt, mref, mhasref, mlastok, macc, mid, mflags, mcfg, msess, mlisten, mconn, msamples, mlsamples, mdisc,
                         mstopped, mearly, mdrained, muser>>
          /\ Conform(D!SyncNext /\ sync'.yields = Append(sync.yields, Ev.s))
MStop == /\ Ev.e = "sstop"
         /\ mstopped' = TRUE /\ mearly' = (mearly \/ ~(mdisc \/ muser))
         /\ UNCHANGED <<bad, badAt, mref, mhasref, mlastok, macc, mid, mflags, mcfg, msess, mlisten, mconn, msamples, mlsamples, myields,
                        mdisc, mdrained, muser>>
         /\ Conform(D!SyncNext /\ sync'.st = "stopped")

Step == /\ l <= Len(T.ev)
        /\ l' = l + 1 /\ UNCHANGED tid
        /\ (MAdd \/ MAddVar \/ MOp \/ MAck \/ MData \/ MReconnect \/ MEnv \/ MSBegin \/ MSConn \/ MSample \/ MDisc \/ MYield \/ MStop)

Finish == /\ l = Len(T.ev) + 1
          /\ l' = l + 1
          /\ LET s == ConnClause(IF mdisc THEN mdrained ELSE T.idle_end)
                 b == IF bad # "ok" THEN bad ELSE s
             IN PrintT(<<"VERDICT", T.id, b, IF bad # "ok" THEN badAt ELSE l, cok, cokAt>>)
          /\ UNCHANGED <<tid, bad, badAt, cok, cokAt>> /\ UNCHANGED monvars /\ UNCHANGED specvars

Next == Step \/ Finish
Spec == Init /\ [][Next]_<<tid, l, bad, badAt, cok, cokAt, monvars, specvars>>
=============================================================================
