SPECIFICATION Spec
CONSTANT Reliable = FALSE
CHECK_DEADLOCK FALSE
