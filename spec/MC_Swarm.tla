---- MODULE MC_Swarm ----
EXTENDS Swarm
\* one argument dictionary: entries of length 1, 0, 2, 1 (the harness passes the same tokens)
ArgDictsOne == { << <<11>>, <<>>, <<31, 32>>, <<41>> >> }
\* a second dictionary whose entries are all alike (a shared list would go unnoticed with
\* distinct-length-only checks; tokens still differ per dictionary)
ArgDictsTwo == ArgDictsOne \cup { << <<7>>, <<7>>, <<7>>, <<7>> >> }
AllKinds == {"seq", "par", "psafe", "open", "close"}
\* parallel() has the thread structure of parallel_safe(); left out of the 4-member run
KindsNoPar == {"seq", "psafe", "open", "close"}
====
