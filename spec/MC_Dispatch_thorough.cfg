SPECIFICATION Spec
CONSTANTS
  NRegs = 3
  Patterns <- PatternsThorough
  Headers <- HeadersThorough
  NPackets = 2
  LiveIteration = FALSE
INVARIANT AllPacketsOK
INVARIANT NoDupRegs
INVARIANT TypeOK
CHECK_DEADLOCK FALSE
