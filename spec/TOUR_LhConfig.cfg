SPECIFICATION Spec
CONSTANTS
  NCH = 16
  NBS = 2
  Menu <- MenuTour
  Follow <- FollowTour
  ReadData <- ReadDataQuick
  MaxReq = 2
  Bugs <- BugsAsIs
INVARIANT TypeOK
INVARIANT SlotsAgree
CHECK_DEADLOCK FALSE
