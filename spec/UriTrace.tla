------------------------------ MODULE UriTrace ------------------------------
(* Trace spec for C20.  One TLC run judges a whole batch of sessions recorded from the real code.
   A session fixes an environment (fake dongles / optional modules) and the real cflib.crtp.CLASSES
   produced by the real init_drivers; each event is one real call:
     parse   RadioDriver.parse_uri(render(u))                       -> r
     claim   for every class of CLASSES: cls().connect(render(u))   -> c (wrong / ok / error per class)
     lookup  cflib.crtp.get_link_driver(render(u))                  -> sel, settings at the first transmission
     open    Crazyflie.open_link(render(u))                         -> escaped, #connection_failed, link, settings
     scan    RadioDriver().scan_interface(address) on a fake dongle -> acked probes, reported URIs re-parsed by parse_uri

   monitor (the verdict): UriProps clauses on the recorded observations; nothing of Uri.tla is used.
   conform (the binding): the observation must equal what the design spec's machine computes for the
            same tokens (Uri!Macro = the small-step machine run to completion).  *)
EXTENDS Naturals, Sequences, FiniteSets, TLC, Json, IOUtils

Traces == JsonDeserialize(IOEnv.TRACE_FILE)

VARIABLES tid, l, bad, badAt, allbad, conf, confAt, ndrift,
          classes, env, stage, op, u, sa, resp, m, left     \* design-spec variables

\* constants of Uri: intended behaviour; the Pick* sets are not used by Macro
Bug == "none"
EnvSet == {}    Ops == {}    Schemes == {}    Dongles == {}   Chans == {}   Rates == {}
AddrSet == {}   RateLimits == {}   ScanAddrs == {}   RespSets == {}   NOps == 0

D == INSTANCE Uri
P == INSTANCE UriProps

specvars == <<classes, env, stage, op, u, sa, resp, m, left>>
T == Traces[tid]
Ev == T.ev[l]
ToSet(s) == {s[i] : i \in DOMAIN s}

Init == /\ tid \in 1..Len(Traces)
        /\ l = 1
        /\ bad = "ok" /\ badAt = 0 /\ allbad = <<>>
        \* the real CLASSES list must be the one the design spec's init_drivers builds
        /\ conf = (Traces[tid].classes = D!ClassesFor(Traces[tid].env))
        /\ confAt = 0 /\ ndrift = 0
        /\ classes = Traces[tid].classes /\ env = Traces[tid].env
        /\ stage = "op" /\ op = "parse" /\ u = D!BlankUri /\ sa = <<>> /\ resp = {}
        /\ m = D!InitM("parse") /\ left = Len(Traces[tid].ev)

\* every event is checked on its own (Macro is a complete operation); conf/confAt = first unexplained event,
\* ndrift = number of unexplained events
Conform(A) == IF ENABLED A
              THEN A /\ UNCHANGED <<conf, confAt, ndrift>>
              ELSE /\ conf' = FALSE /\ confAt' = (IF conf THEN l ELSE confAt) /\ ndrift' = ndrift + 1
                   /\ UNCHANGED specvars

\* bad/badAt = first failing clause and its event; allbad = every failing event <<index, clause>> of the session
Fail(c) == /\ IF bad = "ok" /\ c # "ok" THEN bad' = c /\ badAt' = l ELSE UNCHANGED <<bad, badAt>>
           /\ allbad' = IF c # "ok" THEN Append(allbad, <<l, c>>) ELSE allbad

OpenRec(e) == [escaped |-> e.escaped, failed |-> e.failed, link |-> e.link, ap |-> e.ap, lrl |-> e.lrl]

MParse == /\ Ev.e = "parse"
          /\ Fail(P!ParseClause(Ev.u, T.env, Ev.r))
          /\ Conform(D!Macro("parse", Ev.u, <<>>, {}) /\ D!ParseObs(m') = Ev.r)
MClaim == /\ Ev.e = "claim"
          /\ Fail(P!ClaimClause(Ev.u, T.classes, Ev.c))
          /\ Conform(D!Macro("claim", Ev.u, <<>>, {}) /\ m'.claims = Ev.c)
MLookup == /\ Ev.e = "lookup"
           /\ Fail(P!LookupClause(Ev.u, T.classes, T.env, Ev.sel, Ev.ap, Ev.lrl))
           /\ Conform(D!Macro("lookup", Ev.u, <<>>, {})
                      /\ D!Sel(m') = Ev.sel /\ m'.ap = Ev.ap /\ m'.lrl = Ev.lrl)
MOpen == /\ Ev.e = "open"
         /\ Fail(P!OpenClause(Ev.u, T.classes, T.env, OpenRec(Ev)))
         /\ Conform(D!Macro("open", Ev.u, <<>>, {}) /\ D!OpenObs(m') = OpenRec(Ev))
MScan == /\ Ev.e = "scan"
         /\ Fail(P!ScanClause(Ev.acked, Ev.rep))
         /\ Conform(D!Macro("scan", D!BlankUri, Ev.sa, ToSet(Ev.resp))
                    /\ m'.found = Ev.found /\ m'.acked = Ev.acked)

Step == /\ l <= Len(T.ev)
        /\ l' = l + 1 /\ UNCHANGED tid
        /\ (MParse \/ MClaim \/ MLookup \/ MOpen \/ MScan)

Finish == /\ l = Len(T.ev) + 1
          /\ l' = l + 1
          /\ PrintT(<<"VERDICT", T.id, bad, badAt, conf, confAt, ToString(allbad), ndrift>>)
          /\ UNCHANGED <<tid, bad, badAt, allbad, conf, confAt, ndrift, specvars>>

Next == Step \/ Finish
Spec == Init /\ [][Next]_<<tid, l, bad, badAt, allbad, conf, confAt, ndrift, specvars>>
=============================================================================
