SPECIFICATION Spec
CONSTANTS
  Configs <- ConfigsTour
  Budget = 3
  Window <- WindowAll
  Bug = "none"
INVARIANT TableAtDone
INVARIANT TableStaysOK
INVARIANT LookupsOK
INVARIANT Progress
INVARIANT OnePattern
INVARIANT TypeOK
CHECK_DEADLOCK FALSE
