------------------------------ MODULE SafelinkAB ------------------------------
(* C01 stretch: the alternating-bit core of safelink with UNBOUNDED packet counters, for an
   inductive-invariant proof with Apalache (independent of the number of transmissions):
       Init => IndInv          apalache-mc check --init=Init   --inv=IndInv --length=0
       IndInv /\ Next => IndInv'  apalache-mc check --init=IndInv --inv=IndInv --length=1
   Host rule = _send_packet_safe / run of radiodriver.py (flip up on every ack, flip down when the
   payload's bit 2 equals _curr_down, queue EVERY payload, retransmit the same frame until acked);
   peer rule = SafelinkProps!PeerRx in safelink mode.  Packets are abstracted to their index:
     n = frames the host has finished with (acknowledged), the frame in flight is n+1
     r = frames the peer took as new            q = packets the Crazyflie queued
     a = packets the peer dropped from its queue as acknowledged
     g = downlink packets the host put into in_queue
   okUp / okDown become FALSE if a frame is taken as new out of order / a payload is queued by
   the host out of order (duplicate or gap).  Not load-bearing for the check (harness/props/C01.py
   runs it under a timeout and records the outcome). *)
EXTENDS Integers

VARIABLES
    \* @type: Int;
    hUp,
    \* @type: Int;
    hDown,
    \* @type: Int;
    pUp,
    \* @type: Int;
    pDown,
    \* @type: Int;
    n,
    \* @type: Int;
    r,
    \* @type: Int;
    q,
    \* @type: Int;
    a,
    \* @type: Int;
    g,
    \* @type: Bool;
    lastTx,
    \* @type: Int;
    lastIdx,
    \* @type: Int;
    lastBit,
    \* @type: Bool;
    okUp,
    \* @type: Bool;
    okDown

\* state right after the echo ff 05 01: host 0/0, peer 1/1
Init == /\ hUp = 0 /\ hDown = 0 /\ pUp = 1 /\ pDown = 1
        /\ n = 0 /\ r = 0 /\ q = 0 /\ a = 0 /\ g = 0
        /\ lastTx = FALSE /\ lastIdx = 0 /\ lastBit = 1
        /\ okUp = TRUE /\ okDown = TRUE

CfQueue == /\ q' = q + 1
           /\ UNCHANGED <<hUp, hDown, pUp, pDown, n, r, a, g, lastTx, lastIdx, lastBit, okUp, okDown>>

\* uplink lost: nothing happens anywhere (the host retransmits the same frame with the same bits)
TxU == UNCHANGED <<hUp, hDown, pUp, pDown, n, r, q, a, g, lastTx, lastIdx, lastBit, okUp, okDown>>

\* the frame (index n+1, bits hUp/hDown) reaches the peer; acked = the ack reaches the host
Tx(acked) ==
    LET new == hUp # pUp
        adv == hDown # pDown
        a1 == IF adv /\ lastTx THEN a + 1 ELSE a
        tx1 == IF adv THEN a1 < q ELSE lastTx
        idx1 == IF adv THEN (IF a1 < q THEN a1 + 1 ELSE 0) ELSE lastIdx
        bit1 == IF adv THEN hDown ELSE lastBit
    IN /\ pUp' = IF new THEN hUp ELSE pUp
       /\ r' = IF new THEN r + 1 ELSE r
       /\ okUp' = (okUp /\ (new => n + 1 = r + 1))
       /\ pDown' = IF adv THEN hDown ELSE pDown
       /\ a' = a1 /\ lastTx' = tx1 /\ lastIdx' = idx1 /\ lastBit' = bit1
       /\ IF acked
          THEN /\ hUp' = 1 - hUp /\ n' = n + 1
               /\ hDown' = IF bit1 = hDown THEN 1 - hDown ELSE hDown
               /\ g' = IF idx1 # 0 THEN g + 1 ELSE g
               /\ okDown' = (okDown /\ (idx1 # 0 => idx1 = g + 1))
          ELSE UNCHANGED <<hUp, n, hDown, g, okDown>>
       /\ UNCHANGED q

Next == CfQueue \/ TxU \/ Tx(TRUE) \/ Tx(FALSE)

IndInv ==
    /\ hUp \in {0, 1} /\ hDown \in {0, 1} /\ pUp \in {0, 1} /\ pDown \in {0, 1} /\ lastBit \in {0, 1}
    /\ n \in Nat /\ r \in Nat /\ q \in Nat /\ a \in Nat /\ g \in Nat /\ lastIdx \in Nat
    /\ lastTx \in BOOLEAN
    /\ okUp = TRUE /\ okDown = TRUE
    \* uplink: the frame in flight has been taken iff the bits agree
    /\ IF hUp # pUp THEN r = n ELSE r = n + 1
    \* downlink
    /\ a + (IF lastTx THEN 1 ELSE 0) <= q
    /\ IF hDown # pDown
       THEN g = a + (IF lastTx THEN 1 ELSE 0)          \* the last payload has reached the host
       ELSE /\ g = a                                    \* it has not, and it is the right one
            /\ lastBit = pDown
            /\ lastIdx = (IF lastTx THEN a + 1 ELSE 0)

\* what the invariant buys: exactly-once, in-order in both directions for any number of
\* transmissions and any loss pattern
Safe == okUp /\ okDown
=============================================================================
