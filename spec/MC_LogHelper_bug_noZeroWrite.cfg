SPECIFICATION Spec
CONSTANTS
  Mode = "estimator"
  Rates = {500}
  Scripts <- EScripts
  Vectors <- EVectors2
  MaxData = 1
  MaxQ = 2
  Times = {100}
  LinkLoss = FALSE
  HasKalman = {TRUE}
  Bug = "noZeroWrite"
VIEW view
CHECK_DEADLOCK FALSE
INVARIANT PropsOK
