SPECIFICATION Spec
CONSTANTS
  NP = 3
  Vals <- ValsThorough
  NoValue = TRUE
  Natures <- NaturesAll
  Statuses <- StatusesAll
  MaxFile = 3
  NCalls = 2
  Resend = TRUE
  MaxDrop = 2
  MaxDup = 1
  MaxEarly = 1
  LinkLoss = TRUE
  WaitMode = "wake"
  Bug = "none"
CHECK_DEADLOCK FALSE
