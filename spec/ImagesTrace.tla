------------------------------ MODULE ImagesTrace ------------------------------
(* Trace spec for C14.  One TLC run judges a batch of cases recorded from the real classes of
   cflib.crazyflie.mem / cflib.localization driven through a byte-array memory handler.

   A trace is [id, fmt, content, env, regs0 (Seq of [base, data]), ev]; one step per event:
     user     the harness called the next operation of the script; `reqs` = the requests the
              library issued before it returned ([k "r"/"w", addr, len, data])
     deliver  the memory answered the oldest outstanding request (ok, data read); `reqs` = the
              requests issued by the library's callback
     corrupt  the harness changed one byte of region 0;  tamper: it edited the file envelope
     done     the observation the harness read from the library's objects

   monitor  (the verdict): the events rebuild memory, outstanding requests and the write history
            with the memory model of ImagesProps; at "done" ImagesProps!CaseClause is evaluated
            on (content, writes, memory, observation).  The memory answers logged by the harness
            are checked against that model ("Harness..." clauses are machinery failures).
   conform  (the binding): every event must be a step of the design spec Images (repaired
            semantics) with the logged requests and, at the end, the same observation, write
            history and memory.  *)
EXTENDS Naturals, Sequences, FiniteSets, Bitwise, TLC, Json, IOUtils

Traces == JsonDeserialize(IOEnv.TRACE_FILE)

VARIABLES tid, l,
          mregs, mpend, mwrote, mtamper, bad, badAt,     \* monitor
          conf, confAt,                                  \* conformance verdict
          phase, fmt, content, env, regs, pend, wrote, lib, obs, pc, ncor   \* design-spec variables

T == Traces[tid]
Bug == "none"
Fmts == {"eeprom", "ow", "lh", "lhfile", "paramfile", "poly", "led", "deck", "loco", "loco2"}
CaseSet == <<>>
MkCase(f, p) == p
MaxCorrupt == 1000000
CorruptPos == [f \in {"eeprom", "ow"} |-> 1..65536]
CorruptVals == 0..255

D == INSTANCE Images
P == INSTANCE ImagesProps

specvars == <<phase, fmt, content, env, regs, pend, wrote, lib, obs, pc, ncor>>
Ev == T.ev[l]
ToRegs(rs) == [b \in {rs[i].base : i \in DOMAIN rs} |-> rs[CHOOSE i \in DOMAIN rs : rs[i].base = b].data]
WritesOf(reqs) == LET w == SelectSeq(reqs, LAMBDA q : q.k = "w")
                  IN [i \in 1..Len(w) |-> [addr |-> w[i].addr, data |-> w[i].data]]
WriteOnly == T.fmt \in {"poly", "led"}

Init == /\ tid \in 1..Len(Traces)
        /\ l = 1
        /\ mregs = ToRegs(Traces[tid].regs0) /\ mpend = <<>> /\ mwrote = <<>> /\ mtamper = FALSE
        /\ bad = "ok" /\ badAt = 0
        /\ conf = TRUE /\ confAt = 0
        /\ phase = "run" /\ fmt = Traces[tid].fmt /\ content = Traces[tid].content /\ env = Traces[tid].env
        /\ regs = ToRegs(Traces[tid].regs0)
        /\ pend = <<>> /\ wrote = <<>> /\ lib = D!Lib0(Traces[tid].fmt) /\ obs = D!Obs0(Traces[tid].fmt)
        /\ pc = 1 /\ ncor = 0

Conform(A) == IF conf /\ ENABLED A
              THEN A /\ UNCHANGED <<conf, confAt>>
              ELSE /\ conf' = FALSE /\ confAt' = (IF conf THEN l ELSE confAt)
                   /\ UNCHANGED specvars

Fail(c) == IF bad = "ok" /\ c # "ok" THEN bad' = c /\ badAt' = l ELSE UNCHANGED <<bad, badAt>>

MUser == /\ Ev.e = "user"
         /\ mpend' = mpend \o Ev.reqs
         /\ mwrote' = mwrote \o WritesOf(Ev.reqs)
         /\ Fail(IF mpend # <<>> THEN "HarnessUserWhilePending" ELSE "ok")
         /\ UNCHANGED <<mregs, mtamper>>
         /\ Conform(D!User(Ev.op) /\ pend' = Ev.reqs)

MDeliver == /\ Ev.e = "deliver"
            /\ IF mpend = <<>>
               THEN /\ Fail("HarnessDeliverWithoutRequest") /\ UNCHANGED <<mregs, mpend, mwrote>>
               ELSE LET q == Head(mpend)
                        can == P!CanAccess(mregs, q.addr, q.len)
                        ok == can \/ (q.k = "w" /\ WriteOnly)
                    IN /\ Fail(IF Ev.ok # ok THEN "HarnessMemoryStatusDiverged"
                               ELSE IF q.k = "r" /\ ok /\ Ev.data # P!ReadMem(mregs, q.addr, q.len)
                                    THEN "HarnessMemoryDataDiverged" ELSE "ok")
                       /\ mregs' = IF q.k = "w" /\ can THEN P!WriteMem(mregs, q.addr, q.data) ELSE mregs
                       /\ mpend' = Tail(mpend) \o Ev.reqs
                       /\ mwrote' = mwrote \o WritesOf(Ev.reqs)
            /\ UNCHANGED mtamper
            /\ Conform(D!Deliver /\ pend' = Tail(pend) \o Ev.reqs)

MCorrupt == /\ Ev.e = "corrupt"
            /\ mregs' = [mregs EXCEPT ![0][Ev.pos] = Ev.val]
            /\ UNCHANGED <<mpend, mwrote, mtamper, bad, badAt>>
            /\ Conform(D!Corrupt(Ev.pos, Ev.val))

MTamper == /\ Ev.e = "tamper"
           /\ mtamper' = TRUE
           /\ UNCHANGED <<mregs, mpend, mwrote, bad, badAt>>
           /\ Conform(D!Tamper(Ev.field))

MDone == /\ Ev.e = "done"
         /\ Fail(IF mpend # <<>> THEN "HarnessDoneWhilePending"
                 ELSE IF mtamper THEN "ok"
                 ELSE P!CaseClause(T.fmt, T.content, mwrote, mregs, T.env, Ev.obs))
         /\ UNCHANGED <<mregs, mpend, mwrote, mtamper>>
         /\ Conform(D!Done /\ obs = Ev.obs /\ wrote = mwrote /\ regs = mregs)

Step == /\ l <= Len(T.ev)
        /\ l' = l + 1 /\ UNCHANGED tid
        /\ (MUser \/ MDeliver \/ MCorrupt \/ MTamper \/ MDone)

Finish == /\ l = Len(T.ev) + 1
          /\ l' = l + 1
          /\ LET b == IF bad # "ok" THEN bad
                      ELSE IF Len(T.ev) = 0 \/ T.ev[Len(T.ev)].e # "done" THEN "HarnessNoObservation"
                      ELSE "ok"
             IN PrintT(<<"VERDICT", T.id, b, badAt, conf, confAt>>)
          /\ UNCHANGED <<tid, mregs, mpend, mwrote, mtamper, bad, badAt, conf, confAt, specvars>>

Next == Step \/ Finish
Spec == Init /\ [][Next]_<<tid, l, mregs, mpend, mwrote, mtamper, bad, badAt, conf, confAt, specvars>>
=============================================================================
