SPECIFICATION Spec
CONSTANTS
  Versions <- PlatVersions
  Cmds <- PlatCmds
  ArgSets <- ArgSetsPlat
  HdrPorts <- Ports16
  HdrChans <- Chans4
  PlatPackets <- PlatAll
  Links <- LinksNow
  Cap = 1
  Chained = FALSE
  Bug = "version_unsolicited"
INVARIANT EmissionsOK
INVARIANT HeadersOK
INVARIANT RepresentableIsSent
CHECK_DEADLOCK FALSE
