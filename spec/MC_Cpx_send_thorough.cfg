SPECIFICATION Spec
CONSTANTS
  Packets <- PacketsTcp
  MaxPackets = 1
  NR = 0
  RFns <- RFnsTcp
  SendSets <- Send2Tcp
  MaxSends = 4
  Mode = "tcp"
  LateRegister = FALSE
  Bug = "none"
INVARIANT TypeOK
INVARIANT CodecOK
INVARIANT ReadsOK
INVARIANT RouteOK
INVARIANT DownOK
INVARIANT UpOK
CHECK_DEADLOCK FALSE
