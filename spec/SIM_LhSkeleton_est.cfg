SPECIFICATION Spec
CONSTANTS
  Mode = "est"
  BsIds = {1, 2, 3, 4, 5, 6}
  MaxMeas = 0
  Deltas <- DeltasQuick
  Diffs = {0}
  MinBs = {0}
  MaxSamples = 6
  SampleSets <- AllSampleSets
  MaxOutliers = 0
  Bug = "none"
  PrintCases = FALSE
INVARIANT MatchOK
INVARIANT EstOK
CHECK_DEADLOCK FALSE
