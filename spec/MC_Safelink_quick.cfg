SPECIFICATION Spec
CONSTANTS
  NUp = 2
  NDown = 2
  Retries = 3
  NegAttempts = 10
  MaxLoss = 9
  MaxNegLoss = 2
  MaxRestarts = 0
  MaxSlow = 0
  PeerModes <- ModesSL
  DenyReplies <- DenyOne
  AckTails <- TailsRssi
  Bug = "none"
INVARIANT PropertyHolds
INVARIANT StepFormHolds
INVARIANT CompleteAtRest
INVARIANT SafelinkIffEcho
INVARIANT NeedsResendingIsNotSafelink
INVARIANT Lockstep
INVARIANT TypeOK
CHECK_DEADLOCK FALSE
