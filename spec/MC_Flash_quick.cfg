SPECIFICATION Spec
CONSTANTS
  Chunk = 2
  MaxRetry = 5
  Targets = {255}
  PageSizes = {1, 2, 3, 5}
  BufCounts = {1, 2, 3}
  FlashSizes = {1, 2, 4}
  MaxLen = 30
  Fates = {"ok", "nack", "lostcmd", "lostreply", "stray"}
  Bug = "none"
  Observe = TRUE
INVARIANT PropOK
INVARIANT TypeOK
INVARIANT FlashedWhenDone
INVARIANT NothingOutside
CHECK_DEADLOCK FALSE
