---- MODULE MC_LifecycleEnum ----
(* Enumeration of the clauses the as-is design spec can violate (for the known-findings list in reports/C02.md):
   run repeatedly, adding the key TLC reports to Seen, until both invariants hold.  See harness/props/C02.py
   enumerate_known().  *)
EXTENDS MC_Lifecycle
CONSTANT Seen
EnumInv == viol = "ok" \/ ViolKey \in Seen
QuietKey == Pr!QuietClause(QRecord, LastStim) \o "/" \o (IF g.next >= 3 THEN "R" ELSE "T")
EnumQuiet == (PreQuiet /\ viol = "ok") => (Pr!QuietClause(QRecord, LastStim) = "ok" \/ QuietKey \in Seen)
====
