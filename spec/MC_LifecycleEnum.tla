---- MODULE MC_LifecycleEnum ----
(* Enumeration of the clauses the as-is design spec can violate (for the known-findings list in reports/C02.md).
   One exhaustive run; both "invariants" are always TRUE and print every (clause, variant) key once per worker:
   variant T = no open_link of attempt >= 2 had begun when the clause failed, R = it had.
   See harness/props/C02.py enumerate_known().  *)
EXTENDS MC_Lifecycle
ASSUME TLCSet(7, {})
Note(k) == IF k \in TLCGet(7) THEN TRUE ELSE TLCSet(7, TLCGet(7) \cup {k}) /\ PrintT(<<"KEY", k>>)
EnumInv == viol = "ok" \/ Note(ViolKey)
QuietKey == Pr!QuietClause(QRecord, LastStim) \o "/" \o (IF g.next >= 3 THEN "R" ELSE "T")
EnumQuiet == (PreQuiet /\ viol = "ok") => (Pr!QuietClause(QRecord, LastStim) = "ok" \/ Note(QuietKey))
====
