------------------------------ MODULE CpxTrace ------------------------------
(* Trace spec for C18.  One TLC run judges a whole batch of traces recorded from the real
   CPXPacket / SocketTransport / CPXRouter / TcpDriver / SerialDriver code.

   monitor  (the verdict): the events rebuild the observable history (read outcomes, hand-outs
            to receivers, CRTP packets received/sent, bytes written) and the CpxProps clauses are
            evaluated at every event and, with final = TRUE, at the end of the trace (the
            harness stops only when nothing can happen any more).
   conform  (the binding): the same events must be explained one by one by the actions of the
            design spec Cpx (including the sizes asked from recv and the bytes written).

   trace  = [id, mode \in {"codec","transport","router","tcp"}, src \in {"spec","code"},
             pkts, stream, rcv (receiver ids), snd (sender ids), ev]
   events = codec(p,w,o)  reg(r,f)  connect(b)  start  need(n)  recv(n,k)  pkt(o)  rx(r,f,o)
            crtp(c)  run(reads)
            sendb(s,it,fresh)  sender thread s enters send_packet / sendPacket with item it
            wr(s,b)            one socket write of bytes b (issued by sender s), in wire order
            sende(s,ok,same)   the call returned (ok = 0: it raised); same = 1: the caller's packet
                               object reads as before the call         -- see harness/props/C18.py  *)
EXTENDS Naturals, Sequences, FiniteSets, TLC, Json, IOUtils

Traces == JsonDeserialize(IOEnv.TRACE_FILE)

VARIABLES tid, l,
          mreads, mdeliv, mcrtps, msent, mtx, mopen, mregs, mstarted, bad, badAt,     \* monitor
          conf, confAt,                                                       \* conformance verdict
          mode, phase, pkts, stream, rfn, hasq, queues, pos, rd, need, buf, inq, tx, sent, spc, sobj,
          reads, deliv, crtps                                                 \* design-spec variables

T == Traces[tid]
\* constants of Cpx that its actions (other than Init/AddPacket/SendCrtp's bound) do not use
Packets == {}
MaxPackets == 0
NR == 0
RFns == {}
SendSets == <<>>
MaxSends == 1000000
Mode == "trace"
LateRegister == FALSE
Bug == "none"

D == INSTANCE Cpx
P == INSTANCE CpxProps

specvars == <<mode, phase, pkts, stream, rfn, hasq, queues, pos, rd, need, buf, inq, tx, sent, spc, sobj,
              reads, deliv, crtps>>
monvars == <<mreads, mdeliv, mcrtps, msent, mtx, mopen, mregs, mstarted>>
Ev == T.ev[l]

\* the input must lie in the property's domain; a stream the harness built itself must be the
\* protocol's encoding of pkts (judged here, so that no Python encoder has to be trusted)
InputClause(t) ==
    IF \E i \in DOMAIN t.pkts : ~P!ValidPk(t.pkts[i]) THEN "BadInput"
    ELSE IF t.src = "spec" /\ t.mode # "codec" /\ t.stream # P!Stream(t.pkts) THEN "BadInputStream"
    ELSE "ok"

Init == /\ tid \in 1..Len(Traces)
        /\ l = 1
        /\ mreads = <<>> /\ mdeliv = <<>> /\ mcrtps = <<>> /\ msent = <<>> /\ mtx = <<>>
        /\ mopen = {} /\ mregs = {} /\ mstarted = FALSE
        /\ bad = InputClause(Traces[tid]) /\ badAt = 0
        /\ conf = (Traces[tid].mode = "codec" \/ Traces[tid].stream = P!Stream(Traces[tid].pkts))
        /\ confAt = 0
        /\ mode = Traces[tid].mode /\ phase = "setup"
        /\ pkts = Traces[tid].pkts /\ stream = Traces[tid].stream
        /\ rfn = [r \in {Traces[tid].rcv[i] : i \in DOMAIN Traces[tid].rcv} |-> 0]
        /\ hasq = {} /\ queues = [f \in P!Functions |-> <<>>]
        /\ pos = 0 /\ rd = "idle" /\ need = 0 /\ buf = <<>>
        /\ inq = <<>> /\ tx = <<>> /\ sent = <<>>
        /\ spc = [s \in {Traces[tid].snd[i] : i \in DOMAIN Traces[tid].snd} |-> "idle"]
        /\ sobj = [s \in {Traces[tid].snd[i] : i \in DOMAIN Traces[tid].snd} |-> <<>>]
        /\ reads = <<>> /\ deliv = <<>> /\ crtps = <<>>

Conform(A) == IF conf /\ ENABLED A
              THEN A /\ UNCHANGED <<conf, confAt>>
              ELSE /\ conf' = FALSE /\ confAt' = (IF conf THEN l ELSE confAt)
                   /\ UNCHANGED specvars
NoSpecStep == UNCHANGED <<specvars, conf, confAt>>

Fail(c) == IF bad = "ok" /\ c # "ok" THEN bad' = c /\ badAt' = l ELSE UNCHANGED <<bad, badAt>>

\* ---- codec: CPXPacket(p).wireData -> w -> CPXPacket().wireData = w -> o
MCodec == /\ Ev.e = "codec"
          /\ Fail(IF ~P!ValidPk(Ev.p) THEN "BadInput" ELSE P!CodecClause(Ev.p, Ev.o))
          /\ UNCHANGED monvars
          /\ IF conf /\ Ev.w = P!Wire(Ev.p) /\ Ev.o = D!DecodeWire(Ev.w)
             THEN NoSpecStep
             ELSE /\ conf' = FALSE /\ confAt' = (IF conf THEN l ELSE confAt) /\ UNCHANGED specvars

\* ---- a whole transport-level execution in one event (exhaustive cut sets; monitor only)
MRun == /\ Ev.e = "run"
        /\ Fail(P!ReadsClause(T.pkts, Ev.reads, TRUE))
        /\ UNCHANGED monvars /\ NoSpecStep

MReg == /\ Ev.e = "reg"
        /\ mregs' = IF mstarted THEN mregs ELSE mregs \cup {Ev.f}
        /\ UNCHANGED <<mreads, mdeliv, mcrtps, msent, mtx, mopen, mstarted, bad, badAt>>
        /\ Conform(D!Register(Ev.r, Ev.f))

MConnect == /\ Ev.e = "connect"
            /\ mtx' = mtx \o Ev.b
            /\ UNCHANGED <<mreads, mdeliv, mcrtps, msent, mopen, mregs, mstarted, bad, badAt>>
            /\ Conform(D!Connect /\ tx' = Ev.b)

MStart == /\ Ev.e = "start"
          /\ mstarted' = TRUE
          /\ UNCHANGED <<mreads, mdeliv, mcrtps, msent, mtx, mopen, mregs, bad, badAt>>
          /\ Conform(D!Start)

MNeed == /\ Ev.e = "need"
         /\ UNCHANGED <<monvars, bad, badAt>>
         /\ Conform(\/ D!BeginRead /\ Ev.n = 2
                    \/ D!GotLen /\ need' = Ev.n)

MRecv == /\ Ev.e = "recv"
         /\ UNCHANGED <<monvars, bad, badAt>>
         /\ Conform(D!Recv(Ev.k) /\ need - Len(buf) = Ev.n)

\* readPacket returned (o = the packet) or raised (o = Rejected)
MPkt == /\ Ev.e = "pkt"
        /\ mreads' = Append(mreads, Ev.o)
        /\ Fail(P!ReadsClause(T.pkts, mreads', FALSE))
        /\ UNCHANGED <<mdeliv, mcrtps, msent, mtx, mopen, mregs, mstarted>>
        /\ Conform(D!Deliver /\ reads'[Len(reads')] = Ev.o)

\* receivePacket(f) called by receiver r returned o
MRx == /\ Ev.e = "rx"
       /\ mdeliv' = Append(mdeliv, <<Ev.r, Ev.f, Ev.o>>)
       /\ Fail(P!RouteClause(T.pkts, mregs, mdeliv', FALSE))
       /\ UNCHANGED <<mreads, mcrtps, msent, mtx, mopen, mregs, mstarted>>
       /\ Conform(D!Get(Ev.r) /\ deliv'[Len(deliv')] = <<Ev.r, Ev.f, Ev.o>>)

\* the CRTP driver's receive_packet returned c
MCrtp == /\ Ev.e = "crtp"
         /\ mcrtps' = Append(mcrtps, Ev.c)
         /\ Fail(P!DownClause(T.pkts, mcrtps', FALSE))
         /\ UNCHANGED <<mreads, mdeliv, msent, mtx, mopen, mregs, mstarted>>
         /\ Conform(D!UserRecv /\ crtps'[Len(crtps')] = Ev.c)

\* sender s enters send_packet (it = <<0, crtp>>) or CPX.sendPacket (it = <<1, outcome>>)
MSendB == /\ Ev.e = "sendb"
          /\ msent' = Append(msent, <<Ev.s, Ev.it>>) /\ mopen' = mopen \cup {Ev.s}
          /\ Fail(IF P!OwnKeys(msent') THEN "ok" ELSE "BadInput")
          /\ UNCHANGED <<mreads, mdeliv, mcrtps, mtx, mregs, mstarted>>
          /\ Conform(D!SendBegin(Ev.s, Ev.it, Ev.fresh = 1))

\* one socket write, in wire order
MWr == /\ Ev.e = "wr"
       /\ mtx' = mtx \o Ev.b
       /\ UNCHANGED <<mreads, mdeliv, mcrtps, msent, mopen, mregs, mstarted, bad, badAt>>
       /\ Conform(D!Write(Ev.s) /\ tx' = tx \o Ev.b)

\* the call returned; the uplink clause is evaluated whenever no call is in progress
MSendE == /\ Ev.e = "sende"
          /\ mopen' = mopen \ {Ev.s}
          /\ Fail(IF mopen' = {} THEN P!UpClause(msent, mtx) ELSE "ok")
          /\ UNCHANGED <<mreads, mdeliv, mcrtps, msent, mtx, mregs, mstarted>>
          /\ Conform(D!SendEnd(Ev.s) /\ Ev.ok = 1 /\ Ev.same = 1)

Step == /\ l <= Len(T.ev)
        /\ l' = l + 1 /\ UNCHANGED tid
        /\ (MCodec \/ MRun \/ MReg \/ MConnect \/ MStart \/ MNeed \/ MRecv \/ MPkt \/ MRx \/ MCrtp \/ MSendB \/ MWr \/ MSendE)

\* end of the execution: nothing can happen any more (T.fin = quiescence facts from the scheduler)
FinalClause ==
    IF T.mode = "codec" THEN "ok"
    ELSE IF T.fin.compact THEN "ok"
    ELSE IF P!ReadsClause(T.pkts, mreads, T.mode = "transport") # "ok" THEN P!ReadsClause(T.pkts, mreads, T.mode = "transport")
    ELSE IF T.mode = "transport" THEN "ok"
    ELSE IF P!RouteClause(T.pkts, mregs, mdeliv, TRUE) # "ok" THEN P!RouteClause(T.pkts, mregs, mdeliv, TRUE)
    ELSE IF T.mode = "router" THEN "ok"
    ELSE IF P!DownClause(T.pkts, mcrtps, TRUE) # "ok" THEN P!DownClause(T.pkts, mcrtps, TRUE)
    ELSE P!UpClause(msent, mtx)

Finish == /\ l = Len(T.ev) + 1
          /\ l' = l + 1
          /\ LET b == IF bad # "ok" THEN bad ELSE FinalClause
                 \* conformance at the end: the design spec is quiescent as well
                 c == conf /\ (T.mode = "codec" \/ T.fin.compact \/ (D!Quiescent /\ pos = T.fin.consumed))
             IN PrintT(<<"VERDICT", T.id, b, IF bad # "ok" THEN badAt ELSE l, c, IF conf THEN l ELSE confAt>>)
          /\ UNCHANGED <<tid, monvars, bad, badAt, conf, confAt, specvars>>

Next == Step \/ Finish
Spec == Init /\ [][Next]_<<tid, l, monvars, bad, badAt, conf, confAt, specvars>>
=============================================================================
