---- MODULE MC_Cpx ----
EXTENDS Cpx
Pk(s, d, f, l, v, x) == <<s, d, f, l, v, x>>
Seq254 == [i \in 1..254 |-> (i * 7) % 256]

\* every source x destination x function x flag x version, four payload lengths
PayloadsSmall == {<<>>, <<0>>, <<255, 1>>, <<7, 8, 9>>}
PacketsAll == {Pk(s, d, f, l, v, x) : s \in 1..4, d \in 1..4, f \in P!Functions, l \in {0, 1},
                                      v \in 0..3, x \in PayloadsSmall}
\* routing: three functions (one of them CRTP), good and bad version, payloads 0..2
PacketsRoute == {Pk(3, 1, f, 0, v, x) : f \in {1, 3, 15}, v \in {0, 1}, x \in {<<>>, <<64>>, <<200, 17>>}}
                \cup {Pk(4, 2, 15, 1, 0, <<9>>)}
PacketsRouteQ == {Pk(3, 1, f, 0, v, x) : f \in {1, 3}, v \in {0, 2}, x \in {<<>>, <<64>>, <<200, 17>>}}
\* length prefix across the byte boundary (len+2 = 255, 256, 257) and a 2-byte-length packet
PacketsLong == {Pk(1, 3, 5, 1, 0, SubSeq(Seq254, 1, n)) : n \in {253, 254, 255 - 1}} \cup
               {Pk(4, 2, 14, 0, 0, Seq254 \o SubSeq(Seq254, 1, n)) : n \in {0, 1, 2}}
\* CRTP in CPX (tcp mode): CRTP headers with all port/channel extremes, a non-CRTP packet, bad version
PacketsTcp == {Pk(1, 3, 3, 0, 0, x) : x \in {<<>>, <<0>>, <<255, 9>>, <<92, 1, 2>>}} \cup
              {Pk(1, 3, 2, 0, 0, <<65>>), Pk(1, 3, 3, 0, 1, <<16, 5>>)}
CrtpsTcp == {<<0, 0, <<>>>>, <<15, 3, <<1>>>>, <<2, 1, <<255, 0>>>>}
\* sender threads (tcp mode): sender -> items it may send; <<0, c>> = CRTP packet c through
\* send_packet, <<1, o>> = CPX packet (outcome tuple) through CPX.sendPacket.  Senders own their
\* CRTP ports / CPX functions (CpxProps (5)).
NoSenders == <<>>
Send1Tcp == << {<<0, c>> : c \in CrtpsTcp} >>
\* two threads on one link: the library thread (ports 0 and 2) and an application thread that sends
\* on port 15 and CPXFunction.APP packets to the GAP8
AppPk(x) == <<1, <<1, 3, 4, 5, 0, x>>>>
Send2Tcp == << {<<0, <<0, 0, <<>>>>>>, <<0, <<2, 1, <<255, 0>>>>>>},
               {<<0, <<15, 3, <<1>>>>>>, AppPk(<<7>>)} >>
RFnsRoute == {1, 3}
RFnsAll == P!Functions
RFnsTcp == {2}

\* simulation (spec -> code): every header combination, small payloads / CRTP payloads with all port and channel extremes
PacketsTcpSim == {Pk(s, 3, f, l, v, x) : s \in {1, 4}, f \in {2, 3}, l \in {0, 1}, v \in {0, 0, 0, 2},
                                         x \in {<<>>, <<0>>, <<255, 9>>, <<92, 1, 2>>, <<243, 0, 0, 0, 255>>, <<16>>}}
PacketsSim == {p \in PacketsAll : p[5] = 0 \/ (p[1] = 1 /\ p[2] = 1 /\ p[4] = 0)}
RFnsSim == {1, 2, 3, 15}
SendSim == << {<<0, <<p, c, x>>>> : p \in {0, 2}, c \in {0, 3}, x \in {<<>>, <<1>>, <<255, 0, 7>>}},
              {<<0, <<15, c, x>>>> : c \in {0, 3}, x \in {<<>>, <<1>>, <<255, 0, 7>>}} \cup {AppPk(<<>>), AppPk(<<3, 0>>)} >>
NoPackets == {}
ASSUME \A ss \in {Send1Tcp, Send2Tcp, SendSim} : \A s, t \in DOMAIN ss : \A a \in ss[s], b \in ss[t] :
          P!KeyOf(a) = P!KeyOf(b) => s = t

\* the protocol's format is a bijection on the whole packet domain (checked once, not per state)
ASSUME \A p \in PacketsAll : P!ValidPk(p) /\ P!Unwire(P!Wire(p)) = p /\ P!Frames(P!Frame(p)) = <<P!Wire(p)>>
====
