---- MODULE MC_Lifecycle ----
EXTENDS Lifecycle
\* the code as it stands in /repo (every as-is behaviour switched on)
AsIs == {"syncOpenNoWake", "stopJoins", "pingSelfJoin", "sendNoFinally", "sendReread", "dispReread", "closeReread",
         "errReread", "staleFetcher", "errStateRace", "errInSender", "openReread", "dispStalePk", "updDoubleRelease"}
Repaired == {}
AllFaults == {"sender", "driver", "cf1", "cf2"}
LinkFaults == {"sender", "driver"}
Bug_syncOpenNoWake == {"syncOpenNoWake"}
Bug_errInSender == {"errInSender", "stopJoins"}
Bug_pingSelfJoin == {"errInSender", "stopJoins", "pingSelfJoin"}
Bug_sendNoFinally == {"errInSender", "stopJoins", "pingSelfJoin", "sendNoFinally"}
Bug_sendReread == {"sendReread"}
Bug_dispReread == {"dispReread"}
Bug_closeReread == {"closeReread", "errStateRace"}
Bug_errReread == {"errReread", "errStateRace"}
Bug_staleFetcher == {"staleFetcher"}
Bug_errStateRace == {"errStateRace"}
Bug_openReread == {"openReread"}
Bug_dispStalePk == {"dispStalePk"}
Bug_updDoubleRelease == {"updDoubleRelease"}
\* breadth-first depth bounds for the as-is counterexample searches (deterministic caps)
Depth30 == TLCGet("level") <= 30
Depth36 == TLCGet("level") <= 36
Depth40 == TLCGet("level") <= 40
Depth50 == TLCGet("level") <= 50
Depth60 == TLCGet("level") <= 60
Depth80 == TLCGet("level") <= 80
====
