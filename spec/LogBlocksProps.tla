------------------------------ MODULE LogBlocksProps ------------------------------
(* C05 -- the listed property, as operators over observable history only (plain arguments).

   Vocabulary
     toc      device log table: Seq([n : name, t : type 1..8, i : device index 0..65535])
     cfg      what the user configured through LogConfig(name, period_ms) / add_variable /
              add_memory:  [period : ms, vars : Seq(var)]
     var      [k : "toc"|"mem", n : name, f : fetch type (0 = "as stored", resolved against the
               table), s : stored type (raw-memory variables only, else 0), a : address as 4
               little-endian bytes (raw-memory variables only)]
     ref      the configuration's variable list as fixed by the first successful add_config
              (DESIGN 3.1(4)): Seq(var) with every f resolved
     msg      data bytes of a port-5/channel-1 packet as the device received it: <<cmd, id, ...>>

   Readings fixed here (reported as interpretive decisions):
     * "period between 10 ms and 2.54 s" is the block period in the protocol's 10 ms units,
       LogConfig.period = period_ms \div 10 in 1..254 (DESIGN 5/C05: Accept(cfg)).
     * the stored-type nibble is demanded for raw-memory variables only; for table variables the
       device takes the stored type from its own table [fw log.c], so only the fetch nibble and
       the index are demanded.
     * firmware decode of a create/append body: whole entries, a trailing remainder is ignored;
       table entries are 3 bytes (type, index u16), raw-memory entries 5 bytes (type, address
       u32) -- which entries are raw-memory entries is taken from ref (abstraction of the
       firmware's marker).
     * flags follow acknowledgements: they change only while an acknowledgement is processed, in
       the direction it says; EEXIST on create and ENOENT on delete report the device's state
       (block present / absent) and the flags follow that.
     * SyncLogger: the yielded samples are a prefix of the decoded ones (once, in order); the
       iteration ends after the disconnect, not before; nothing is lost when the consumer had
       drained the queue at the disconnect (samples still queued at that moment may be dropped:
       "ending at disconnect").                                                              *)
EXTENDS Integers, Sequences, FiniteSets

\* ---- log types [dis: get_log_types order] [fw log.h]
\*      1 uint8  2 uint16  3 uint32  4 int8  5 int16  6 int32  7 float  8 FP16
TypeSize(t) == CASE t \in {1, 4} -> 1 [] t \in {2, 5, 8} -> 2 [] t \in {3, 6, 7} -> 4 [] OTHER -> 0

SeqSum(s) == LET F[i \in 0..Len(s)] == IF i = 0 THEN 0 ELSE F[i - 1] + s[i] IN F[Len(s)]
Range(s) == {s[i] : i \in DOMAIN s}
Count(s, x) == Cardinality({i \in DOMAIN s : s[i] = x})
IsPermutation(a, b) == /\ Len(a) = Len(b)
                       /\ \A x \in Range(a) \cup Range(b) : Count(a, x) = Count(b, x)
IsPrefix(p, s) == Len(p) <= Len(s) /\ SubSeq(s, 1, Len(p)) = p

\* ---- device table
InToc(toc, n) == \E j \in DOMAIN toc : toc[j].n = n
TocEntry(toc, n) == toc[CHOOSE j \in DOMAIN toc : toc[j].n = n]
TocIdx(toc, n) == TocEntry(toc, n).i
TocType(toc, n) == TocEntry(toc, n).t

\* ---- (A) acceptance
FetchOf(v, toc) == IF v.f # 0 THEN v.f ELSE TocType(toc, v.n)
AllInToc(cfg, toc) == \A j \in DOMAIN cfg.vars : cfg.vars[j].k = "toc" => InToc(toc, cfg.vars[j].n)
PayloadSize(cfg, toc) == SeqSum([j \in DOMAIN cfg.vars |-> TypeSize(FetchOf(cfg.vars[j], toc))])
PeriodUnits(cfg) == cfg.period \div 10
Accept(cfg, toc) == /\ AllInToc(cfg, toc)
                    /\ PeriodUnits(cfg) >= 1 /\ PeriodUnits(cfg) <= 254
                    /\ PayloadSize(cfg, toc) <= 26

Resolve(v, toc) == [v EXCEPT !.f = FetchOf(v, toc)]
Resolved(cfg, toc) == [j \in DOMAIN cfg.vars |-> Resolve(cfg.vars[j], toc)]

\* what identifies a variable of a block (the library's stored nibble of a table variable is not
\* part of it)
Key(v) == IF v.k = "toc" THEN <<v.k, v.n, v.f, 0, <<>> >> ELSE <<v.k, v.n, v.f, v.s, v.a>>
Keys(vs) == [j \in DOMAIN vs |-> Key(vs[j])]

\* one add_config call: res = "ok" (returned) or the exception name; obs = LogConfig.variables
\* after the call; first = no earlier successful add_config of this LogConfig; readd = there was one
\* and this is the first add_config of the LogConfig after a reconnect; ref as above
AddClause(cfg, toc, first, readd, ref, res, obs) ==
    IF readd /\ Keys(obs) # Keys(ref) THEN "ReAddKeepsVariables"
    ELSE IF Accept(cfg, toc) /\ res # "ok" THEN "RejectedButValid"
    ELSE IF ~Accept(cfg, toc) /\ res = "ok" THEN "AcceptedButInvalid"
    ELSE IF res = "ok" /\ first /\ ~IsPermutation(Keys(obs), Keys(Resolved(cfg, toc)))
         THEN "ConfiguredVariables"
    ELSE "ok"

\* ---- (B) block-creation messages
Kinds(ref) == [j \in DOMAIN ref |-> ref[j].k]

RECURSIVE DecBody(_, _, _, _)
DecBody(b, pos, kinds, ki) ==
    LET mem == ki <= Len(kinds) /\ kinds[ki] = "mem"
        need == IF mem THEN 5 ELSE 3
    IN IF pos + need - 1 > Len(b) THEN <<>>
       ELSE <<[k |-> IF mem THEN "mem" ELSE "toc", t |-> b[pos],
               r |-> SubSeq(b, pos + 1, pos + need - 1)]>>
            \o DecBody(b, pos + need, kinds, ki + 1)

RECURSIVE DecMsgs(_, _, _)
DecMsgs(msgs, kinds, ki) ==
    IF msgs = <<>> THEN <<>>
    ELSE LET m == Head(msgs)
             d == DecBody(SubSeq(m, 3, Len(m)), 1, kinds, ki)
         IN d \o DecMsgs(Tail(msgs), kinds, ki + Len(d))

EntryOK(e, v, toc) ==
    /\ e.k = v.k
    /\ IF v.k = "toc"
       THEN /\ e.t % 16 = v.f
            /\ InToc(toc, v.n)
            /\ e.r = <<TocIdx(toc, v.n) % 256, TocIdx(toc, v.n) \div 256>>
       ELSE /\ e.t = v.f + 16 * v.s
            /\ e.r = v.a

\* msgs: everything the library sent for one creation of block `id` (current protocol: 6 = create
\* V2, 7 = append V2)
CreateClause(ref, toc, id, msgs) ==
    IF msgs = <<>> THEN "NoCreationMessages"
    ELSE IF \E j \in DOMAIN msgs : Len(msgs[j]) > 30 THEN "MessageWithin30"
    ELSE IF \E j \in DOMAIN msgs : \/ Len(msgs[j]) < 2
                                   \/ msgs[j][1] # (IF j = 1 THEN 6 ELSE 7)
                                   \/ msgs[j][2] # id THEN "CreateThenAppend"
    ELSE LET d == DecMsgs(msgs, Kinds(ref), 1) IN
         IF Len(d) < Len(ref) THEN "VariableMissing"
         ELSE IF Len(d) > Len(ref) THEN "VariableRepeatedOrExtra"
         ELSE IF \E j \in DOMAIN d : ~EntryOK(d[j], ref[j], toc) THEN "EntryWrong"
         ELSE "ok"

\* ---- (C) data packets: exact values
\* canonical exact value: <<"int", neg, hi16, lo16>> (magnitude in 16-bit limbs),
\* <<"fin", neg, m, e>> = (-1)^neg * m * 2^e with m odd, <<"zero", neg, 0, 0>>,
\* <<"inf", neg, 0, 0>>, <<"nan", 0, 0, 0>>
RECURSIVE Norm(_, _, _)
Norm(s, m, e) == IF m % 2 = 0 THEN Norm(s, m \div 2, e + 1) ELSE <<"fin", s, m, e>>

U(b) == IF Len(b) = 1 THEN <<"int", 0, 0, b[1]>>
        ELSE IF Len(b) = 2 THEN <<"int", 0, 0, b[1] + 256 * b[2]>>
        ELSE <<"int", 0, b[3] + 256 * b[4], b[1] + 256 * b[2]>>
S(b) == IF Len(b) = 1 THEN (IF b[1] >= 128 THEN <<"int", 1, 0, 256 - b[1]>> ELSE <<"int", 0, 0, b[1]>>)
        ELSE IF Len(b) = 2
        THEN LET v == b[1] + 256 * b[2] IN
             IF v >= 32768 THEN <<"int", 1, 0, 65536 - v>> ELSE <<"int", 0, 0, v>>
        ELSE LET lo == b[1] + 256 * b[2]
                 hi == b[3] + 256 * b[4] IN
             IF hi >= 32768
             THEN <<"int", 1, 65535 - hi + (IF lo = 0 THEN 1 ELSE 0), (65536 - lo) % 65536>>
             ELSE <<"int", 0, hi, lo>>
F32(b) == LET sign == b[4] \div 128
              ex == (b[4] % 128) * 2 + b[3] \div 128
              man == (b[3] % 128) * 65536 + b[2] * 256 + b[1]
          IN IF ex = 255 THEN (IF man = 0 THEN <<"inf", sign, 0, 0>> ELSE <<"nan", 0, 0, 0>>)
             ELSE IF ex = 0 THEN (IF man = 0 THEN <<"zero", sign, 0, 0>> ELSE Norm(sign, man, -149))
             ELSE Norm(sign, 8388608 + man, ex - 150)
F16(b) == LET sign == b[2] \div 128
              ex == (b[2] % 128) \div 4
              man == (b[2] % 4) * 256 + b[1]
          IN IF ex = 31 THEN (IF man = 0 THEN <<"inf", sign, 0, 0>> ELSE <<"nan", 0, 0, 0>>)
             ELSE IF ex = 0 THEN (IF man = 0 THEN <<"zero", sign, 0, 0>> ELSE Norm(sign, man, -24))
             ELSE Norm(sign, 1024 + man, ex - 25)
Canon(t, b) == CASE t \in {1, 2, 3} -> U(b)
                 [] t \in {4, 5, 6} -> S(b)
                 [] t = 7 -> F32(b)
                 [] t = 8 -> F16(b)
                 [] OTHER -> <<"?", 0, 0, 0>>

\* wire = <<id, ts0, ts1, ts2, payload...>> as the device sent it; types = fetch types the device
\* encoded the payload with (its own block); got = [ts, vals, nkeys] delivered to data_received_cb;
\* nref = number of variables of the configuration.  Values the device appended beyond the
\* configuration's variables (possible after a repeated creation, see report) are not demanded.
DataClause(types, wire, got, nref) ==
    LET ts == wire[2] + 256 * wire[3] + 65536 * wire[4]
        payload == SubSeq(wire, 5, Len(wire))
        sizes == [j \in DOMAIN types |-> TypeSize(types[j])]
        off(j) == SeqSum(SubSeq(sizes, 1, j - 1))
    IN IF got.ts # ts THEN "Timestamp"
       ELSE IF Len(got.vals) # nref \/ got.nkeys # nref \/ Len(types) < nref THEN "ValueCount"
       ELSE IF \E j \in 1..nref :
                  got.vals[j] # Canon(types[j], SubSeq(payload, off(j) + 1, off(j) + sizes[j]))
            THEN "Value"
       ELSE "ok"

\* one data packet went through the library: mine = 0 or the accepted configuration with that id;
\* gots = samples delivered while it was processed, each [c, ts, vals, nkeys]
PacketClause(types, wire, mine, gots, nref) ==
    IF mine = 0 THEN (IF gots = <<>> THEN "ok" ELSE "SpuriousSample")
    ELSE IF gots = <<>> THEN "DataNotDelivered"
    ELSE IF Len(gots) > 1 THEN "DataDeliveredTwice"
    ELSE IF gots[1].c # mine THEN "WrongBlock"
    ELSE DataClause(types, wire, gots[1], nref)

\* ---- (D) flags and callbacks follow the acknowledgements
\* one acknowledgement [cmd, id, st] went through the library; for one LogConfig: mine = it is the
\* accepted block with that id; b/a = [added, started] before/after; cbs = Seq(<<which, value>>)
\* of its added_cb/started_cb invocations meanwhile
IsCreate(cmd) == cmd \in {0, 6}
MayAdded(cmd, st, mine, b) ==
    IF ~mine THEN {b.added}
    ELSE IF IsCreate(cmd) /\ st = 0 THEN {TRUE}
    ELSE IF IsCreate(cmd) /\ st = 17 THEN {TRUE}          \* EEXIST: the device says it has the block
    ELSE IF cmd = 2 /\ st = 0 THEN {FALSE}
    ELSE IF cmd = 2 /\ st = 2 THEN {FALSE}         \* ENOENT: the device says the block is not there
    ELSE {b.added}
MayStarted(cmd, st, mine, b) ==
    IF ~mine THEN {b.started}
    ELSE IF cmd = 3 /\ st = 0 THEN {TRUE}
    ELSE IF cmd \in {2, 4} /\ st = 0 THEN {FALSE}
    ELSE IF cmd = 2 /\ st = 2 THEN {FALSE}
    ELSE {b.started}
NCalls(cbs, w, v) == Cardinality({j \in DOMAIN cbs : cbs[j] = <<w, v>>})
CallbacksFollow(w, before, after, errAck, cbs) ==
    /\ (NCalls(cbs, w, TRUE) >= 1) = (after /\ ~before)
    /\ (before /\ ~after) => NCalls(cbs, w, FALSE) >= 1
    /\ (NCalls(cbs, w, FALSE) >= 1) => ((before /\ ~after) \/ errAck)
AckClause(cmd, st, mine, b, a, cbs) ==
    IF a.added \notin MayAdded(cmd, st, mine, b) THEN "AddedFollowsAck"
    ELSE IF a.started \notin MayStarted(cmd, st, mine, b) THEN "StartedFollowsAck"
    ELSE IF ~CallbacksFollow("added", b.added, a.added, mine /\ IsCreate(cmd) /\ st \notin {0, 17}, cbs)
         THEN "AddedCallbackFollowsAck"
    ELSE IF ~CallbacksFollow("started", b.started, a.started, mine /\ cmd = 3 /\ st # 0, cbs)
         THEN "StartedCallbackFollowsAck"
    ELSE "ok"

\* a user call (add_config/start/stop/delete) or a data packet went through the library: nothing
\* of the flags or callbacks may move without an acknowledgement
QuietClause(b, a, ncbs) ==
    IF a # b THEN "FlagsChangedWithoutAck"
    ELSE IF ncbs # 0 THEN "CallbackWithoutAck"
    ELSE "ok"

\* ---- (E) SyncLogger
\* received = samples handed to the logger's data callback (in order), decoded = samples data_received_cb
\* delivered for the logger's configurations between connect() and the disconnect, yields = what the
\* iteration returned; disc/stopped: disconnect seen / iteration ended; early = it ended before any
\* disconnect; drained = the consumer was waiting on an empty queue at the disconnect (or at the end of
\* an execution without disconnect)
SyncClause(received, decoded, yields, disc, stopped, early, drained) ==
    IF ~IsPrefix(yields, received) THEN "YieldsOnceInOrder"
    ELSE IF early THEN "EndedBeforeDisconnect"
    ELSE IF disc /\ ~stopped THEN "NoEndAtDisconnect"
    ELSE IF drained /\ Len(yields) # Len(decoded) THEN "SampleLost"
    ELSE "ok"
=============================================================================
