SPECIFICATION Spec
CONSTANTS
  P = 9
  NPar = 2
  ErFrom = 3
  LogStart = 3
  LogEnd = 5
  ParStart = 6
  NAtt = 3
  MaxFaults = 2
  FaultBy = {"sender", "driver", "cf1", "cf2"}
  MaxPings = 4
  UseSync = FALSE
  Closer = TRUE
  Defects = {"closeReread", "dispReread", "dispStalePk", "errInSender", "errReread", "errStateRace", "openReread", "pingSelfJoin", "stopJoins", "sendNoFinally", "staleFetcher", "syncOpenNoWake", "updDoubleRelease"}
CHECK_DEADLOCK FALSE
