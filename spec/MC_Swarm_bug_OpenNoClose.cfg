SPECIFICATION Spec
CONSTANTS
  MaxN = 3
  NOps = 2
  Kinds <- AllKinds
  ArgDicts <- ArgDictsOne
  Bug = "OpenNoClose"
INVARIANT RetOK
INVARIANT FinalOK
CHECK_DEADLOCK FALSE
