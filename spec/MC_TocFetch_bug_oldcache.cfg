SPECIFICATION Spec
CONSTANTS
  Configs <- ConfigsBugCache
  Budget = 0
  Window <- WindowAll
  Bug = "OldCacheAccepted"
INVARIANT TableAtDone
INVARIANT TableStaysOK
INVARIANT LookupsOK
CHECK_DEADLOCK FALSE
