------------------------------ MODULE Codecs ------------------------------
(* Design spec of the numeric wire codecs of cflib (C13), implementation-shaped:

     ImplFp16        cflib.utils.encoding.fp16_to_float   (manual exponent/mantissa re-biasing to
                     the float32 bit pattern, subnormal normalisation loop)
     ImplCompress    cflib.utils.encoding.compress_quaternion   (normalise, first largest component,
                     sign relative to it, 9-bit magnitude round-half-up of 511*|q_i|*sqrt2)
     ImplDecompress  cflib.utils.encoding.decompress_quaternion (mag/511/sqrt2, largest from the
                     unit norm) -- reals are produced as dyadic approximations floor(x*2^24)/2^24
     ImplSpatial/ImplYaw   mem.trajectory_memory._CompressedBase + struct.pack('<h')
                     (double multiplication rounded to 53 bits, truncation, int16 range check)
     ImplRgb         mem.led_driver_memory / led_timings_driver_memory  RGB888 -> RGB565 * intensity
     ImplRange/ImplLh      crazyflie.localization.Localization._incoming / _decode_lh_angle
     Receive         the same decoder on ONE Localization object over a stream of packets whose
                     decoded objects the receiver keeps (environment: the application's callback
                     puts every LocalizationPacket aside -- a queue to another thread, a
                     per-base-station cache -- and reads it after later packets have arrived)

   The state machine enumerates a case step by step (kind, then one argument per step -- this
   keeps the branching small for `tlc -simulate`), evaluates the codec in one `Eval` step and
   keeps (kind, args, out) for the invariants, which apply the CodecsProps clauses.
   A "stream" case is several steps long: three arguments per packet, one `Receive` per packet.
   Bug # "none" switches on one named defect (pre-fix behaviour or a mutant).              *)
EXTENDS Integers, Sequences, FiniteSets, CodecsNum

CONSTANTS Bug,
          Kinds,          \* subset of {"fp16", "quat", "mm", "dd", "rgb", "range", "lh", "stream"}
          HiBytes,        \* fp16: high bytes enumerated (low byte always 0..255)
          K,              \* quat: components in -K..K
          MmCoarse, DdCoarse,   \* traj: coarse grid points; value = (coarse*64 + fine) * 2^-Shift
          MmShift, DdShift,
          RgbI,           \* rgb: intensities
          RgbOthers,      \* rgb: levels of the two channels that are held
          F32s,           \* range/lh: float32 values as 4-byte sequences (sequence of them)
          LhBases,        \* lh: the first LhBases entries of F32s (finite) serve as base angles
          LhPos,          \* lh: which of the six offset slots are swept
          OffHi,          \* lh: high bytes of the half-float offset that is swept
          StreamLen,      \* stream: packets per stream (all received by one Localization object)
          StreamBases,    \* stream: the first StreamBases entries of F32s serve as base angles
          StreamPos,      \* stream: which offset slot differs from the fixed pattern
          StreamOffHi     \* stream: high bytes of that half-float offset (low byte 0)

P == INSTANCE CodecsProps

VARIABLES kind, args, out, prev, phase,
          heap,           \* stream: the decoded objects that exist (sequence of ImplLh results)
          kept            \* stream: what the receiver holds, per packet received so far:
                          \*   [data: the bytes the device sent, now: the decoded values seen at
                          \*    delivery, ref: index into heap of the object that was delivered]
vars == <<kind, args, out, prev, phase, heap, kept>>

Abs(x) == IF x < 0 THEN -x ELSE x
Num(c, s, m, e) == [c |-> c, s |-> s, m |-> m, e |-> e, t |-> "float"]
NumD(x) == Num("fin", x.s, x.n, x.e)
NumZero(s) == Num("fin", s, <<>>, 0)

\* ---------------------------------------------------------------- double rounding
\* round to nearest, ties to even, 53 significant bits (normal range)
RoundD53(x) ==
    LET k == NBitLen(x.n) - 53 IN
    IF k <= 0 THEN x
    ELSE LET q    == NShr(x.n, k)
             rem  == NSub(x.n, NShl(q, k))
             c    == NCmp(rem, NShl(<<1>>, k - 1))
             up   == c > 0 \/ (c = 0 /\ q[1] % 2 = 1)
         IN D(x.s, IF up THEN NAdd(q, <<1>>) ELSE q, x.e + k)
\* truncation toward zero of a dyadic with |x| < 2^30, as a TLC integer
TruncInt(x) ==
    LET n == IF x.e >= 0 THEN NShl(x.n, x.e) ELSE NShr(x.n, -x.e)
        v == Limb(n, 1) + B * Limb(n, 2)
    IN IF x.s = 1 THEN -v ELSE v

\* ---------------------------------------------------------------- fp16_to_float
\* struct.unpack('f', struct.pack('I', s<<31 | e8<<23 | f23)): the float32 with these fields
FieldsNum(s, e8, f23) ==
    IF e8 = 255 THEN Num(IF f23 = 0 THEN "inf" ELSE "nan", s, <<>>, 0)
    ELSE IF e8 = 0 THEN (IF f23 = 0 THEN NumZero(s) ELSE Num("fin", s, NFromInt(f23), -149))
    ELSE Num("fin", s, NFromInt(8388608 + f23), e8 - 150)
\* the raw 32-bit pattern returned as a Python int (pre-fix behaviour of the special cases)
IntNum(s, e8, f23) == [NumD(D(0, NAdd(NShl(NFromInt(s), 31), NFromInt(e8 * 8388608 + f23)), 0)) EXCEPT !.t = "int"]
\* while not (f & 0x400): f <<= 1; e -= 1
RECURSIVE SubNorm(_, _)
SubNorm(f, e) == IF (f \div 1024) % 2 = 1 THEN <<f, e>> ELSE SubNorm(f * 2, e - 1)
ImplFp16(h) ==
    LET s == h \div 32768  e == (h \div 1024) % 32  f == h % 1024
        special(e8, f23) == IF Bug = "Fp16IntSpecials" THEN IntNum(s, e8, f23) ELSE FieldsNum(s, e8, f23)
    IN IF e = 0 /\ f = 0 THEN special(0, 0)
       ELSE IF e = 31 THEN special(255, f * 8192)
       ELSE LET p  == IF e = 0 THEN SubNorm(f, e) ELSE <<f, e>>
                e1 == IF e = 0 THEN p[2] + 1 ELSE e
                f1 == IF e = 0 THEN p[1] - 1024 ELSE f
                bias == IF Bug = "Fp16Bias" THEN 111 ELSE 112
                e2 == IF Bug = "Fp16NoSubnormal" /\ e = 0 THEN 0 ELSE e1 + bias
            IN FieldsNum(s, e2, (IF Bug = "Fp16NoSubnormal" /\ e = 0 THEN 0 ELSE f1) * 8192)

\* ---------------------------------------------------------------- quaternion
\* q: four Num.  quat_n = q / norm is not formed: |q_i| / norm is compared through squares
QD(q, i) == P!ToD(q[i])
\* for i in range(1, 4): if abs(q[i]) > abs(q[i_largest]): i_largest = i
Bigger(q, i, j) == DCmp(DAbs(QD(q, i)), DAbs(QD(q, j))) > 0
Largest(q) == LET il2 == IF Bigger(q, 2, 1) THEN 2 ELSE 1
                  il3 == IF Bigger(q, 3, il2) THEN 3 ELSE il2
              IN IF Bigger(q, 4, il3) THEN 4 ELSE il3
\* int(511 * (|a| / sqrt(N)) / (1/sqrt 2) + 0.5): the largest m with (2m-1)^2 N <= 8*511^2 a^2
MagPred(m, aa8, N) == m = 0 \/ DLe(DMulI(N, (2 * m - 1) * (2 * m - 1)), aa8)
RECURSIVE MagBis(_, _, _, _)
MagBis(lo, hi, aa8, N) == IF hi - lo <= 1 THEN lo
                          ELSE LET mid == (lo + hi) \div 2 IN
                               IF MagPred(mid, aa8, N) THEN MagBis(mid, hi, aa8, N) ELSE MagBis(lo, mid, aa8, N)
\* truncating variant (mutant): largest m with m^2 N <= 2*511^2 a^2  <=>  (2m)^2 N <= 8*511^2 a^2
MagTruncPred(m, aa8, N) == DLe(DMulI(N, 4 * m * m), aa8)
RECURSIVE MagTruncBis(_, _, _, _)
MagTruncBis(lo, hi, aa8, N) == IF hi - lo <= 1 THEN lo
                               ELSE LET mid == (lo + hi) \div 2 IN
                                    IF MagTruncPred(mid, aa8, N) THEN MagTruncBis(mid, hi, aa8, N)
                                    ELSE MagTruncBis(lo, mid, aa8, N)
Mag(a, N) == LET aa8 == DMulI(DMul(a, a), 8 * 511 * 511) IN
             IF Bug = "QuatTruncate" THEN MagTruncBis(0, 1024, aa8, N) ELSE MagBis(0, 1024, aa8, N)
\* the word as <<i_largest (0-based), F1, F2, F3>>, F = negbit*512 + mag, in index order
ImplCompress(q) ==
    LET il  == Largest(q)
        N   == P!QuatNormSq(q)
        neg == DSgn(QD(q, il)) < 0
        fld(i) == LET nb == IF Bug = "QuatNoNegate" THEN DSgn(QD(q, i)) < 0 ELSE (DSgn(QD(q, i)) < 0) # neg
                  IN (IF nb THEN 512 ELSE 0) + Mag(QD(q, i), N)
        rest == SelectSeq(<<1, 2, 3, 4>>, LAMBDA i : i # il)
    IN <<il - 1, fld(rest[1]), fld(rest[2]), fld(rest[3])>>
\* relation form of the same definition (used to check a recorded word without the bisections)
IsMag(m, a, N) == LET aa8 == DMulI(DMul(a, a), 8 * 511 * 511) IN MagPred(m, aa8, N) /\ ~MagPred(m + 1, aa8, N)
IsCompress(q, f) ==
    LET il  == Largest(q)
        N   == P!QuatNormSq(q)
        neg == DSgn(QD(q, il)) < 0
        rest == SelectSeq(<<1, 2, 3, 4>>, LAMBDA i : i # il)
    IN /\ f[1] = il - 1
       /\ \A j \in 1..3 : /\ (f[j + 1] \div 512 = 1) = ((DSgn(QD(q, rest[j])) < 0) # neg)
                           /\ IsMag(f[j + 1] % 512, QD(q, rest[j]), N)
\* the word's bytes (little-endian); fields may exceed 10 bits only under a Bug
WordOf(f) == LET r30 == (f[2] % 1024) * 1048576 + (f[3] % 1024) * 1024 + (f[4] % 1024)
                 top == f[1] * 64 + r30 \div 16777216
             IN [s |-> 0, b |-> <<r30 % 256, (r30 \div 256) % 256, (r30 \div 65536) % 256, top % 256>>,
                 hi |-> NFromInt(top \div 256)]
FieldsOf(w) == LET r30 == (w.b[4] % 64) * 16777216 + w.b[3] * 65536 + w.b[2] * 256 + w.b[1]
               IN <<w.b[4] \div 64, r30 \div 1048576, (r30 \div 1024) % 1024, r30 % 1024>>

\* floor(sqrt(num / den) * 2^20) for naturals num <= den (bisection; result <= 2^20)
SqrtOk(y, num40, den) == NCmp(NMul(NMul(NFromInt(y), NFromInt(y)), den), num40) <= 0
RECURSIVE SqrtBis(_, _, _, _)
SqrtBis(x, bit, num40, den) ==
    IF bit = 0 THEN x
    ELSE IF SqrtOk(x + bit, num40, den) THEN SqrtBis(x + bit, bit \div 2, num40, den)
    ELSE SqrtBis(x, bit \div 2, num40, den)
SqrtFix20(num, den) == SqrtBis(0, 1048576, NShl(num, 40), den)
\* C20 = floor(2^40 / (511 sqrt 2)):  C20^2 * 2 * 511^2 <= 2^80 < (C20 + 1)^2 * 2 * 511^2
C20 == 1521471874
ASSUME LET d2 == NFromInt(2 * 511 * 511)  p80 == NShl(<<1>>, 80) IN
       /\ NCmp(NMul(NMul(NFromInt(C20), NFromInt(C20)), d2), p80) <= 0
       /\ NCmp(p80, NMul(NMul(NFromInt(C20 + 1), NFromInt(C20 + 1)), d2)) < 0
\* decompress: q[i] = +-mag/511/sqrt2 ; q[largest] = sqrt(1 - sum of squares).  The reals are
\* produced as dyadics of 2^-20 (within 2^-19 below the real value).
ImplDecompress(f) ==
    LET il   == f[1] + 1
        rest == SelectSeq(<<1, 2, 3, 4>>, LAMBDA i : i # il)
        pos(i) == CHOOSE j \in 1..3 : rest[j] = i
        mag(i) == f[pos(i) + 1] % 512
        negb(i) == f[pos(i) + 1] \div 512
        ssq  == mag(rest[1]) * mag(rest[1]) + mag(rest[2]) * mag(rest[2]) + mag(rest[3]) * mag(rest[3])
        big  == IF Bug = "QuatLargestOne" THEN 1048576
                ELSE IF 2 * 511 * 511 - ssq < 0 THEN 0
                ELSE SqrtFix20(NFromInt(2 * 511 * 511 - ssq), NFromInt(2 * 511 * 511))
        comp(i) == IF i = il THEN NumD(D(0, NFromInt(big), -20))
                   ELSE NumD(D(IF Bug = "QuatDropSign" THEN 0 ELSE negb(i),
                               NShr(NMulS(NFromInt(C20), mag(i)), 20), -20))
    IN <<comp(1), comp(2), comp(3), comp(4)>>

\* relation form for recorded doubles d: within 2^-18 of mag/511/sqrt2 (sign as the sign bit), and
\* the largest within 2^-17 of sqrt(1 - sum):  |y^2 den - (den - ssq)| <= den 2^-18, y >= 0
IsDecompress(f, d) ==
    LET il   == f[1] + 1
        rest == SelectSeq(<<1, 2, 3, 4>>, LAMBDA i : i # il)
        den  == 2 * 511 * 511
        ssq  == (f[2] % 512) * (f[2] % 512) + (f[3] % 512) * (f[3] % 512) + (f[4] % 512) * (f[4] % 512)
        y    == P!ToD(d[il])
    IN /\ \A i \in 1..4 : d[i].c = "fin"
       /\ \A j \in 1..3 :
             LET ideal == D(f[j + 1] \div 512, NShr(NMulS(NFromInt(C20), f[j + 1] % 512), 20), -20)
             IN DLe(DAbs(DSub(P!ToD(d[rest[j]]), ideal)), D(0, <<1>>, -18))
       /\ DSgn(y) >= 0
       /\ LET e == DAbs(DSub(DMulI(DMul(y, y), den), DInt(den - ssq))) IN DLe(D(e.s, e.n, e.e + 18), DInt(den))

\* ---------------------------------------------------------------- compressed trajectory
\* 180/pi as the double CPython uses in math.degrees: 0x1.ca5dc1a63c1f8p+5
RadToDeg == D(0, <<16888, 13511, 6000, 229>>, -47)
Big(x) == DLe(DInt(65536), DAbs(x))
\* int(coordinate * 1000) ; struct.pack('<h') raises outside int16
Raise == <<FALSE, 0>>
Val(t) == <<TRUE, t>>
EncodeInt(x) ==
    IF x.c # "fin" THEN Raise
    ELSE LET v == P!ToD(x)
             r == IF x.k = "mm" THEN RoundD53(DMulI(v, IF Bug = "TrajCentimetres" THEN 100 ELSE 1000))
                  ELSE RoundD53(DMulI(RoundD53(DMul(v, RadToDeg)), IF Bug = "TrajWholeDegrees" THEN 1 ELSE 10))
         IN IF Big(r) THEN Raise
            ELSE LET t == TruncInt(r) IN
                 IF Bug = "TrajWrap" THEN Val(((t + 32768) % 65536) - 32768)
                 ELSE IF Bug = "TrajClamp" THEN Val(IF t > 32767 THEN 32767 ELSE IF t < -32768 THEN -32768 ELSE t)
                 ELSE IF t > 32767 \/ t < -32768 THEN Raise ELSE Val(t)
LE16(t) == LET u == IF t < 0 THEN t + 65536 ELSE t IN <<u % 256, u \div 256>>
RECURSIVE Flatten(_)
Flatten(ss) == IF ss = <<>> THEN <<>> ELSE Head(ss) \o Flatten(Tail(ss))
\* pack(): [r |-> "raise"] or [r |-> "val", b |-> bytes after the header]
ImplPack(xs) ==
    LET enc == [i \in DOMAIN xs |-> EncodeInt(xs[i])] IN
    IF \E i \in DOMAIN xs : ~enc[i][1] THEN [r |-> "raise", b |-> <<>>]
    ELSE [r |-> "val", b |-> Flatten([i \in DOMAIN xs |-> LE16(enc[i][2])])]

\* ---------------------------------------------------------------- RGB565
Chan5(v) == ((v * 249 + 1014) \div 2048) % 32
Chan6(v) == ((v * 253 + 505) \div 1024) % 64
ImplRgb(r, g, b, I) ==
    LET sc(x) == IF Bug = "RgbIntensityRoundUp" THEN (x * I + 99) \div 100 ELSE (x * I) \div 100
        R == sc(IF Bug = "RgbRed6" THEN Chan6(r) ELSE Chan5(r))
        G == sc(IF Bug = "RgbGreenWrap" THEN (g * 253 + 505) \div 1024 % 32 ELSE Chan6(g))
        Bl == sc(Chan5(b))
        w == R * 2048 + G * 32 + Bl
    IN <<(w \div 256) % 256, w % 256>>

\* ---------------------------------------------------------------- localization
ImplF32(b) == LET r == P!F32(b) IN Num(r.c, r.s, IF r.m = 0 THEN <<>> ELSE NFromInt(r.m), IF r.m = 0 THEN 0 ELSE r.e)
\* raw[1] - fp16_to_float(raw[k]) in double arithmetic; base finite
ImplAngle(base, h) ==
    LET o == ImplFp16(h) IN
    IF o.c = "nan" THEN Num("nan", 0, <<>>, 0)
    ELSE IF o.c = "inf" THEN Num("inf", 1 - o.s, <<>>, 0)
    ELSE LET df == DSub(P!ToD(base), P!ToD(o)) IN
         \* IEEE: (-0) - (+0) = -0, every other zero difference is +0
         IF df.n = <<>> THEN NumZero(IF base.m = <<>> /\ o.m = <<>> /\ base.s = 1 /\ o.s = 0 THEN 1 ELSE 0)
         ELSE NumD(RoundD53(df))
ImplRange(data) ==
    LET n == Len(data) \div 5 IN
    [called |-> TRUE, ids |-> [j \in 1..n |-> data[5 * j - 4]],
     vals |-> [j \in 1..n |-> ImplF32(SubSeq(data, 5 * j - 3, 5 * j))]]
ImplLh(data) ==
    LET bx == ImplF32(SubSeq(data, 2, 5))  by == ImplF32(SubSeq(data, 12, 15))
        ox(i) == P!U16(data[4 + 2 * i], data[5 + 2 * i])
        oy(i) == P!U16(data[14 + 2 * i], data[15 + 2 * i])
    IN [called |-> TRUE, bs |-> data[1],
        x |-> <<bx, ImplAngle(bx, ox(1)), ImplAngle(bx, ox(2)), ImplAngle(bx, ox(3))>>,
        y |-> <<by, ImplAngle(by, oy(1)), ImplAngle(by, oy(2)), ImplAngle(by, oy(3))>>]

\* ================================================================ state machine
Init == /\ kind = "none" /\ args = <<>> /\ out = <<>> /\ prev = <<>> /\ phase = "kind"
        /\ heap = <<>> /\ kept = <<>>

PickKind(k) == /\ phase = "kind" /\ k \in Kinds
               /\ kind' = k /\ phase' = "args" /\ UNCHANGED <<args, out, prev, heap, kept>>

NArgs == CASE kind = "fp16" -> 2 [] kind = "quat" -> 4 [] kind = "mm" -> 2 [] kind = "dd" -> 2
           [] kind = "rgb" -> 4 [] kind = "range" -> 1 [] kind = "lh" -> 4
           [] kind = "stream" -> 3 * StreamLen [] OTHER -> 0
ArgDom(i) == CASE kind = "fp16" -> IF i = 1 THEN HiBytes ELSE 0..255
               [] kind = "quat" -> (-K)..K
               [] kind = "mm" -> IF i = 1 THEN MmCoarse ELSE 0..63
               [] kind = "dd" -> IF i = 1 THEN DdCoarse ELSE 0..63
               [] kind = "rgb" -> IF i = 1 THEN 1..3 ELSE IF i = 2 THEN RgbI ELSE RgbOthers
               [] kind = "range" -> 0..2
               [] kind = "lh" -> IF i = 1 THEN 1..LhBases ELSE IF i = 2 THEN LhPos
                                 ELSE IF i = 3 THEN OffHi ELSE 0..255
               [] kind = "stream" -> IF i % 3 = 1 THEN 1..StreamBases ELSE IF i % 3 = 2 THEN StreamPos
                                     ELSE StreamOffHi
               [] OTHER -> {}
\* (stream: the arguments of the next packet are chosen only after the previous one was received)
PickArg(v) == /\ phase = "args" /\ Len(args) < NArgs /\ v \in ArgDom(Len(args) + 1)
              /\ kind = "stream" => Len(args) < 3 * (Len(kept) + 1)
              /\ args' = Append(args, v) /\ UNCHANGED <<kind, out, prev, phase, heap, kept>>

QNums(a) == [i \in 1..4 |-> NumD(DInt(a[i]))]
TrajX(k, coarse, fine, shift) ==
    LET z == ZInt(coarse * 64 + fine) IN [k |-> k, c |-> "fin", s |-> z.s, m |-> z.n, e |-> -shift]
\* range packet of n anchors: ids 0, 7, 255 with the first n float32 test values rotated by n
RangeData(n) == Flatten([j \in 1..n |-> <<(<<0, 7, 255>>)[j]>> \o F32s[((j + n) % Len(F32s)) + 1]])
\* lh packet: base F32s[b] for both axes, offset position p (1..6) swept, the others 0 / 0x8000
LhData(b, p, h) ==
    LET off(i) == IF i = p THEN <<h % 256, h \div 256>> ELSE IF i % 2 = 0 THEN <<0, 128>> ELSE <<0, 0>>
    IN <<1>> \o F32s[b] \o off(1) \o off(2) \o off(3) \o F32s[b] \o off(4) \o off(5) \o off(6)
\* n-th packet of a stream: two base stations (1, 0, 1, ...) take turns
StreamData(n, b, p, hi) == <<n % 2>> \o Tail(LhData(b, p, hi * 256))
RgbArgs(ch, lvl, o1, o2) == IF ch = 1 THEN <<lvl, o1, o2>> ELSE IF ch = 2 THEN <<o1, lvl, o2>> ELSE <<o1, o2, lvl>>

Eval == /\ phase = "args" /\ Len(args) = NArgs /\ kind # "stream"
        /\ kind = "quat" => args # <<0, 0, 0, 0>>
        /\ phase' = IF kind = "rgb" THEN "sweep" ELSE "done"
        /\ out' = CASE kind = "fp16" -> ImplFp16(args[1] * 256 + args[2])
                    [] kind = "quat" -> LET f == ImplCompress(QNums(args)) IN [w |-> WordOf(f), d |-> ImplDecompress(FieldsOf(WordOf(f)))]
                    [] kind = "mm" -> ImplPack(<<TrajX("mm", args[1], args[2], MmShift)>>)
                    [] kind = "dd" -> ImplPack(<<TrajX("dd", args[1], args[2], DdShift)>>)
                    [] kind = "rgb" -> LET a == RgbArgs(args[1], 0, args[3], args[4]) IN
                                       [lvl |-> 0, b |-> ImplRgb(a[1], a[2], a[3], args[2])]
                    [] kind = "range" -> [data |-> RangeData(args[1]), o |-> ImplRange(RangeData(args[1]))]
                    [] kind = "lh" -> LET dd == LhData(args[1], args[2], args[3] * 256 + args[4]) IN [data |-> dd, o |-> ImplLh(dd)]
        /\ UNCHANGED <<kind, args, prev, heap, kept>>

\* One angle-stream packet arrives at the Localization object that has received the earlier ones.
\* _decode_lh_angle builds a NEW dict with NEW lists for every packet (heap grows), the
\* LocalizationPacket that is handed to the receiver refers to it, and the receiver keeps it.
\* Bug = "LhSharedBuffer": the decoder fills one preallocated dict and its lists in place, every
\* delivered packet refers to that one object.
Receive == /\ phase = "args" /\ kind = "stream" /\ Len(args) = 3 * (Len(kept) + 1)
           /\ LET n  == Len(kept) + 1
                  dd == StreamData(n, args[3 * n - 2], args[3 * n - 1], args[3 * n])
                  r  == ImplLh(dd)
              IN /\ IF Bug = "LhSharedBuffer" /\ heap # <<>>
                       THEN /\ heap' = [heap EXCEPT ![1] = r]
                            /\ kept' = Append(kept, [data |-> dd, now |-> r, ref |-> 1])
                       ELSE /\ heap' = Append(heap, r)
                            /\ kept' = Append(kept, [data |-> dd, now |-> r, ref |-> Len(heap) + 1])
                 /\ out' = [data |-> dd, o |-> r]
                 /\ phase' = IF n = StreamLen THEN "done" ELSE "args"
           /\ UNCHANGED <<kind, args, prev>>

\* next level of an RGB sweep
Sweep == /\ phase = "sweep" /\ out.lvl < 255
         /\ prev' = P!RgbFields(out.b[1], out.b[2])
         /\ LET a == RgbArgs(args[1], out.lvl + 1, args[3], args[4]) IN
            out' = [lvl |-> out.lvl + 1, b |-> ImplRgb(a[1], a[2], a[3], args[2])]
         /\ UNCHANGED <<kind, args, phase, heap, kept>>

Next == \/ \E k \in Kinds : PickKind(k)
        \/ \E v \in ArgDom(Len(args) + 1) : PickArg(v)
        \/ Eval \/ Sweep \/ Receive
Spec == Init /\ [][Next]_vars

\* ---------------------------------------------------------------- invariants: the C13 clauses
Evaluated == phase \in {"done", "sweep"}
Fp16OK  == (Evaluated /\ kind = "fp16") => P!Fp16Clause(args[1] * 256 + args[2], out) = "ok"
QuatOK  == (Evaluated /\ kind = "quat") => P!QuatClause(QNums(args), out.w, out.d) = "ok"
TrajOK  == (Evaluated /\ kind \in {"mm", "dd"}) =>
              P!PackClause(0, <<TrajX(kind, args[1], args[2], IF kind = "mm" THEN MmShift ELSE DdShift)>>,
                           out.r, out.b) = "ok"
RgbOK   == (Evaluated /\ kind = "rgb") =>
              P!RgbStepClause(args[1], out.lvl, args[2], prev, P!RgbFields(out.b[1], out.b[2])) = "ok"
RangeOK == (Evaluated /\ kind = "range") => P!RangeClause(out.data, out.o) = "ok"
LhOK    == (Evaluated /\ kind = "lh") =>
              P!LhClause(out.data, out.o) = "ok"
\* every packet the receiver holds still shows what the device encoded in THAT packet
KeptOK  == kind = "stream" =>
              \A i \in DOMAIN kept : P!LhKeptClause(kept[i].data, kept[i].now, heap[kept[i].ref]) = "ok"
TypeOK  == phase \in {"kind", "args", "sweep", "done"}
=============================================================================
