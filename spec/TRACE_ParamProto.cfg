SPECIFICATION Spec
CONSTANT Bug = "none"
CHECK_DEADLOCK FALSE
