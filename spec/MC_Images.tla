---- MODULE MC_Images ----
(* Case sets for Images.tla.  A case is [content, env, regs]: what the user hands to the
   library, the environment's parameters, and the memory before the first call.  The sets hold
   small parameter tuples; MCMkCase expands one into the concrete case (TLC normalises every
   constant set before it starts, so the sets must stay cheap). *)
EXTENDS Images

AllBytes == 0..255
Blank(n, fill) == [i \in 1..n |-> fill]
RECURSIVE Sorted(_)
Sorted(S) == IF S = {} THEN <<>> ELSE LET m == CHOOSE x \in S : \A y \in S : x <= y IN <<m>> \o Sorted(S \ {m})
Rev(s) == [i \in 1..Len(s) |-> s[Len(s) + 1 - i]]

\* float32 bit patterns (little endian): 0, 1, -1, -0, +inf, -inf, quiet NaN, max, min denormal, pi
F4 == << <<0, 0, 0, 0>>, <<0, 0, 128, 63>>, <<0, 0, 128, 191>>, <<0, 0, 0, 128>>, <<0, 0, 128, 127>>,
         <<0, 0, 128, 255>>, <<0, 0, 192, 127>>, <<255, 255, 127, 127>>, <<1, 0, 0, 0>>, <<219, 15, 73, 64>> >>
Fl(i) == F4[(i % Len(F4)) + 1]
\* float64 bit patterns: 0, 1, -0, +inf, quiet NaN, min denormal, max, 0.1, float32(pi) as double
F8 == << <<0, 0, 0, 0, 0, 0, 0, 0>>, <<0, 0, 0, 0, 0, 0, 240, 63>>, <<0, 0, 0, 0, 0, 0, 0, 128>>,
         <<0, 0, 0, 0, 0, 0, 240, 127>>, <<0, 0, 0, 0, 0, 0, 248, 127>>, <<1, 0, 0, 0, 0, 0, 0, 0>>,
         <<255, 255, 255, 255, 255, 255, 239, 127>>, <<154, 153, 153, 153, 153, 153, 185, 63>>,
         <<0, 0, 0, 96, 251, 33, 9, 64>> >>
Dl(i) == F8[(i % Len(F8)) + 1]

\* ------------------------------------------------------------------ EEPROM: <<ver, ch, speed, float index, addr, fill, corruptible>>
EeCase(p) ==
    [content |-> [ver |-> p[1], ch |-> p[2], speed |-> p[3], pitch |-> Fl(p[4]), roll |-> Fl(p[4] + 3), addr |-> p[5]],
     env |-> [fill |-> p[6], cor |-> p[7]], regs |-> (0 :> Blank(32, p[6]))]
A1 == <<231, 231, 231, 231, 231>>
A2 == <<1, 2, 3, 4, 5>>
EeQuick == <<{<<v, ch, sp, p, a, fill, FALSE>> : v \in {0, 1}, ch \in {0, 80, 125}, sp \in {0, 2}, p \in {0, 6}, a \in {A1, A2}, fill \in {0, 255}},
             {<<v, 80, 2, 1, A1, fill, TRUE>> : v \in {0, 1}, fill \in {0, 255}}>>

\* ------------------------------------------------------------------ 1-wire: <<key order, lengths (id -> n), salt, memory size, corruptible>>
OwStr(id, n, salt) == [i \in 1..n |-> (id * 64 + i * 7 + salt) % 256]
Orders == <<<<>>, <<1>>, <<2>>, <<3>>, <<1, 2>>, <<2, 1>>, <<1, 3>>, <<3, 1>>, <<2, 3>>, <<3, 2>>,
           <<1, 2, 3>>, <<1, 3, 2>>, <<2, 1, 3>>, <<2, 3, 1>>, <<3, 1, 2>>, <<3, 2, 1>>>>
OwCase(p) == LET o == p[1]  l == p[2]  salt == p[3] IN
    [content |-> [pins |-> <<salt, 1, 0, 128>>, vid |-> 188, pid |-> salt,
                  elems |-> [k \in 1..Len(o) |-> [id |-> o[k], str |-> OwStr(o[k], l[o[k]], salt)]]],
     env |-> [size |-> p[4], cor |-> p[5]], regs |-> (0 :> Blank(p[4], 255))]
Area(o, l) == LET S[k \in 0..Len(o)] == IF k = 0 THEN 0 ELSE S[k - 1] + 2 + l[o[k]] IN S[Len(o)]
\* every order; lengths from lens[number of elements + 1]; the image must fit the memory
OwCases(lens, salt, size, cor) ==
    [n \in 1..Len(Orders) |-> LET o == Orders[n] IN
        {<<o, l, salt, size, cor>> : l \in {x \in [{o[k] : k \in DOMAIN o} -> lens[Len(o) + 1]] : 11 + Area(o, x) <= size /\ Area(o, x) <= 255}}]
OwQuick == OwCases(<<{0}, 0..99, {0, 1, 2, 3, 4, 5, 30, 68, 70, 72, 95}, {0, 1, 2, 3}>>, 17, 112, FALSE)
           \o <<{<<<<1, 2>>, (1 :> 4) @@ (2 :> 2), 33, 112, TRUE>>}>>

\* ------------------------------------------------------------------ lighthouse memory: <<geo ids, calib ids, pattern, nbs, reversed>>
LhGeo(id, p) == [id |-> id, f |-> [i \in 1..12 |-> Fl(i + p + id)], valid |-> (id + p) % 3 # 0]
LhCalib(id, p) == [id |-> id, f |-> [i \in 1..14 |-> Fl(i + 2 * p + id)], uid |-> <<id, p, 0, 255>>, valid |-> (id + p) % 3 # 1]
LhRegs(nbs) == [a \in {b * 256 : b \in 0..(nbs - 1)} \cup {4096 + b * 256 : b \in 0..(nbs - 1)} |->
                    IF a < 4096 THEN Blank(49, 0) ELSE Blank(61, 0)]
LhCase(q) == LET G == q[1]  C == q[2]  p == q[3]  rev == q[5] IN
    [content |-> [geos |-> LET s == [i \in 1..Cardinality(G) |-> LhGeo(Sorted(G)[i], p)] IN IF rev THEN Rev(s) ELSE s,
                  calibs |-> LET s == [i \in 1..Cardinality(C) |-> LhCalib(Sorted(C)[i], p)] IN IF rev THEN Rev(s) ELSE s],
     env |-> [nbs |-> q[4]], regs |-> LhRegs(q[4])]
LhQuick == <<{<<G, {15 - g : g \in G}, 1, 16, FALSE>> : G \in SUBSET {0, 1, 5, 15}}, {<<{0, 1, 3}, {1, 2}, 2, 2, TRUE>>}>>

\* ------------------------------------------------------------------ files: <<geo ids, calib ids, pattern, system type>>
LhFileGeo(id, p) == [id |-> id, f |-> [i \in 1..12 |-> Dl(i + p + id)], valid |-> (id + p) % 3 # 0]
LhFileCalib(id, p) == [id |-> id, f |-> [i \in 1..14 |-> Dl(i + 2 * p + id)], uid |-> <<id, p, 0, 255>>, valid |-> (id + p) % 3 # 1]
LhFileCase(q) == LET G == q[1]  C == q[2]  p == q[3] IN
    [content |-> [geos |-> [i \in 1..Cardinality(G) |-> LhFileGeo(Sorted(G)[i], p)],
                  calibs |-> [i \in 1..Cardinality(C) |-> LhFileCalib(Sorted(C)[i], p)], systype |-> q[4]],
     env |-> [none |-> 0], regs |-> <<>>]
LhFileQuick == <<{<<G, {15 - g : g \in G}, 1, st>> : G \in SUBSET {0, 1, 5, 15}, st \in {1, 2}}>>
PVal(k) == CASE k = 0 -> [t |-> "i", b |-> <<0, 0, 0, 0, 0, 0, 0, 0>>]
             [] k = 1 -> [t |-> "i", b |-> <<255, 255, 255, 255, 0, 0, 0, 0>>]
             [] k = 2 -> [t |-> "f", b |-> Dl(7)]
             [] k = 3 -> [t |-> "f", b |-> Dl(3)]
             [] OTHER -> [t |-> "n", b |-> <<>>]
Param(n, st, k) == [name |-> <<114, 105, 110, 103, 46, 101, 48 + n>>, stored |-> st, dv |-> PVal(k), sv |-> IF st THEN PVal(k + 1) ELSE PVal(9)]
ParamFileCase(q) == [content |-> [params |-> [i \in 1..q[1] |-> Param(i, (i + q[2]) % 2 = 0, (i + q[2]) % 4)]], env |-> [none |-> 0], regs |-> <<>>]
ParamFileCases == <<{<<n, k>> : n \in 0..3, k \in 0..3}>>

\* ------------------------------------------------------------------ write-only images
Poly(p) == [x |-> [i \in 1..8 |-> Fl(i + p)], y |-> [i \in 1..8 |-> Fl(i + p + 1)], z |-> [i \in 1..8 |-> Fl(i + p + 2)],
            yaw |-> [i \in 1..8 |-> Fl(i + p + 3)], dur |-> Fl(p + 1)]
PolyCase(q) == [content |-> [addr |-> q[1], pieces |-> [i \in 1..q[2] |-> Poly(i + q[3])]], env |-> [none |-> 0], regs |-> <<>>]
PolyCases == <<{<<a, n, p>> : a \in {0, 132}, n \in 0..3, p \in {0, 5}}>>
Timing(q) == [time |-> q[1], r |-> q[2], g |-> q[3], b |-> q[4], leds |-> q[5], fade |-> q[6], rotate |-> q[7]]
LedCol == {0, 7, 128, 255}
LedOne == {<<t, r, g, b, l, f, ro>> : t \in {1, 255}, r \in LedCol, g \in LedCol, b \in LedCol, l \in {0, 15}, f \in {0, 1}, ro \in {0, 7}}
LedCase(s) == [content |-> [timings |-> [i \in 1..Len(s) |-> Timing(s[i])]], env |-> [none |-> 0], regs |-> <<>>]
LedCases == <<{<<>>}, {<<t>> : t \in LedOne}, {<<<<25, 255, 0, 0, 0, 0, 0>>, t, <<1, 0, 0, 255, 3, 1, 2>>>> : t \in LedOne}>>

\* ------------------------------------------------------------------ device-encoded sections
DeckRecB(bf1, bf2, h, nm) == <<bf1, bf2>> \o <<h, 1, 2, 3>> \o <<4, 5, 6, h>> \o <<0, 0, h, 16>> \o nm \o Blank(18 - Len(nm), 0)
DeckNm(n) == [i \in 1..n |-> 64 + i]
\* <<bit field 1, bit field 2, name length, version>>: record 2 varies, the others are fixed
DeckCase(q) ==
    [content |-> <<>>, env |-> [none |-> 0],
     regs |-> (0 :> <<q[4]>> \o DeckRecB(15, 3, 1, DeckNm(6)) \o DeckRecB(0, 0, 2, <<>>) \o DeckRecB(q[1], q[2], 3, DeckNm(q[3]))
                    \o DeckRecB(126, 1, 4, DeckNm(3)) \o DeckRecB(0, 0, 0, <<>>) \o DeckRecB(1, 0, 5, DeckNm(18))
                    \o DeckRecB(0, 0, 0, <<>>) \o DeckRecB(65, 2, 6, <<98, 99, 65, 73>>))]
DeckQuick == <<{<<a, b, n, 3>> : a \in 0..127, b \in 0..3, n \in {0, 5, 17, 18}}, {<<1, 0, 4, 2>>}>>
AnchorPage(i) == Fl(i) \o Fl(i + 4) \o Fl(i + 7) \o <<(i * 127) % 3>>
LocoCase(n) == [content |-> <<>>, env |-> [none |-> 0],
                regs |-> [a \in {0} \cup {4096 + 256 * i : i \in 0..(n - 1)} |-> IF a = 0 THEN <<n>> ELSE AnchorPage((a - 4096) \div 256)]]
LocoCases == <<0..8>>
IdList(s) == <<Len(s)>> \o s \o Blank(16 - Len(s), 0)
Loco2Case(q) == LET ids == q[1]  act == q[2] IN
    [content |-> <<>>, env |-> [none |-> 0],
     regs |-> [a \in {0, 4096} \cup {8192 + 256 * ids[i] : i \in 1..Len(ids)} |->
                  IF a = 0 THEN IdList(ids) ELSE IF a = 4096 THEN IdList(act) ELSE AnchorPage((a - 8192) \div 256)]]
Loco2Cases == <<{<<ids, act>> : ids \in {<<>>, <<0>>, <<5, 2>>, <<255, 0, 17>>, <<7, 7>>, [i \in 1..16 |-> 16 - i]},
                                act \in {<<>>, <<5>>, <<0, 255>>}}>>

\* ------------------------------------------------------------------ configurations
FmtsAll == {"eeprom", "ow", "lh", "lhfile", "paramfile", "poly", "led", "deck", "loco", "loco2"}
MCMkCase(f, p) == CASE f = "eeprom" -> EeCase(p) [] f = "ow" -> OwCase(p) [] f = "lh" -> LhCase(p) [] f = "lhfile" -> LhFileCase(p)
                    [] f = "paramfile" -> ParamFileCase(p) [] f = "poly" -> PolyCase(p) [] f = "led" -> LedCase(p)
                    [] f = "deck" -> DeckCase(p) [] f = "loco" -> LocoCase(p) [] f = "loco2" -> Loco2Case(p)
Cases(ee, ow, lh, lhf, deck) ==
    [f \in FmtsAll |-> CASE f = "eeprom" -> ee [] f = "ow" -> ow [] f = "lh" -> lh [] f = "lhfile" -> lhf
                         [] f = "paramfile" -> ParamFileCases [] f = "poly" -> PolyCases [] f = "led" -> LedCases
                         [] f = "deck" -> deck [] f = "loco" -> LocoCases [] f = "loco2" -> Loco2Cases]
CasesQuick == Cases(EeQuick, OwQuick, LhQuick, LhFileQuick, DeckQuick)
CorPosQuick == [f \in {"eeprom", "ow"} |-> IF f = "eeprom" THEN 1..21 ELSE 1..13]
====
