------------------------------ MODULE Uri ------------------------------
(* Design spec for C20: link URIs -> driver selection -> radio settings.

   Implementation-shaped model of
     cflib.crtp.init_drivers / get_link_driver        (the CLASSES list, the try/except WrongUriType loop)
     RadioDriver.parse_uri / RadioDriver.connect       (one step per statement group of parse_uri)
     the scheme tests of Usb/Serial/Udp/Prrt/Tcp driver .connect
     RadioDriver.scan_interface                        (one step per data rate)
     Crazyflie.open_link                               (driver lookup wrapped in try/except -> connection_failed)

   The URI is a token record (see UriProps); the environment (which dongles / optional modules exist,
   which Crazyflies answer a scan) is chosen by separate actions.  The machine state of the operation in
   progress is the record m (locals of the code: pc, loop index i, parsed_path, devid, channel, ...).
   One operation = Pick* steps (environment), then Step until m.pc = "done", then Finish.

   Bug = "none" is the intended behaviour.  Other values switch on named defects:
     "empty_path"     parsed_path of "radio://0" is [''] (str.split), int('') raises  -- the code as found
     "pad_right"      short addresses padded on the right
     "reverse_addr"   address bytes least significant first
     "default_chan"   omitted channel defaults to 80
     "two_claim"      TcpDriver tests for "udp://" (copy/paste) -> udp claimed twice, tcp by nobody
     "escape"         open_link does not catch exceptions of the driver lookup
     "scan_no_addr"   scan_interface never puts the address into the reported URIs
     "scan_addr_reversed"  scan_interface hands the scan address to the radio least significant byte first
                      (the reported URIs still carry the address as given): a Crazyflie that sits on the
                      byte-mirrored address answers and is reported under a URI that parses to another address  *)
EXTENDS Naturals, Sequences, FiniteSets, TLC

CONSTANTS Bug,
          EnvSet,        \* set of env records [nd, nusb, prrt, pyserial, serial]
          Ops,           \* subset of {"parse", "claim", "lookup", "open", "scan"}
          Schemes,       \* scheme strings to try
          Dongles,       \* set of [dk, dn]
          Chans, Rates,  \* channels, rate names
          AddrSet,       \* set of digit sequences
          RateLimits,    \* set of <<>> / <<n>>
          ScanAddrs,     \* set of <<>> / 5-byte sequences
          RespSets,      \* set of sets of [chan, rate, addr]: Crazyflies in range
          NOps

P == INSTANCE UriProps

VARIABLES classes, env,      \* CLASSES after init_drivers, the environment
          stage,             \* "setup" | "op" | ... | "run"
          op, u,             \* operation and URI token of the operation in progress
          sa, resp,          \* scan: address argument (<<>> = None), Crazyflies in range
          m,                 \* machine state of the operation
          left               \* operations still to come
vars == <<classes, env, stage, op, u, sa, resp, m, left>>

\* ------------------------------------------------------------------ tokens
BlankUri == [scheme |-> "radio", wf |-> "ok", dk |-> "num", dn |-> 0, nf |-> 0, chan |-> 0,
             rate |-> "2M", addr |-> <<>>, rl |-> <<>>]
Malforms(s) == CASE s = "radio" -> {"chan_alpha", "addr_nonhex", "addr_long", "rl_alpha", "dongle_empty"}
                 [] s \in {"usb", "serial", "udp", "prrt", "tcp"} -> {"bad"}
                 [] OTHER -> {}
MinNf(w) == CASE w = "chan_alpha" -> 1 [] w \in {"addr_nonhex", "addr_long"} -> 3 [] OTHER -> 0

NoAp == [present |-> FALSE, dev |-> 0, chan |-> 0, rate |-> 0, addr |-> <<>>]
Tok(k, v, ds) == [k |-> k, v |-> v, ds |-> ds]

\* init_drivers(enable_serial_driver=env.serial) without USE_CFLINK
ClassesFor(e) == <<"RadioDriver", "UsbDriver">> \o (IF e.serial THEN <<"SerialDriver">> ELSE <<>>)
                 \o <<"UdpDriver", "PrrtDriver", "TcpDriver">>

\* parsed_uri.path.strip('/').split('/')
Fields(uu) ==
    LET chanTok == IF uu.wf = "chan_alpha" THEN Tok("alpha", 0, <<>>) ELSE Tok("int", uu.chan, <<>>)
        rateTok == Tok("rate", P!RateCode(uu.rate), <<>>)
        addrTok == CASE uu.wf = "addr_nonhex" -> Tok("nonhex", 0, <<>>)
                     [] uu.wf = "addr_long" -> Tok("long", 0, <<>>)
                     [] OTHER -> Tok("hex", 0, uu.addr)
    IN  SubSeq(<<chanTok, rateTok, addrTok>>, 1, uu.nf)
Split(uu) == IF uu.nf = 0 /\ Bug = "empty_path" THEN <<Tok("empty", 0, <<>>)>> ELSE Fields(uu)

\* '{:0>10}'.format(s); unhexlify; unpack('<BBBBB')
Pad(ds) == IF Bug = "pad_right"
           THEN [i \in 1..10 |-> IF i <= Len(ds) THEN ds[i].d ELSE 0]
           ELSE [i \in 1..10 |-> IF i <= 10 - Len(ds) THEN 0 ELSE ds[i - (10 - Len(ds))].d]
Bytes(ds) == LET p == Pad(ds)
                 b == [i \in 1..5 |-> 16 * p[2 * i - 1] + p[2 * i]]
             IN  IF Bug = "reverse_addr" THEN [i \in 1..5 |-> b[6 - i]] ELSE b

\* ------------------------------------------------------------------ machine
InitM(o) == [pc |-> CASE o = "parse" -> "p_scheme" [] o = "claim" -> "k_loop"
                      [] o = "scan" -> "s_open" [] OTHER -> "l_loop",
             i |-> 1, path |-> <<>>, devid |-> 0,
             chan |-> IF Bug = "default_chan" THEN 80 ELSE 2, rate |-> 2, addr |-> P!DefaultAddr, rl |-> <<>>,
             exc |-> "none", cres |-> "none", link |-> "none", ap |-> NoAp, lrl |-> <<>>,
             failed |-> 0, escaped |-> FALSE, claims |-> <<>>,
             found |-> <<>>, acked |-> <<>>, sr |-> 0, raddr |-> P!DefaultAddr]

Raise(mm, e) == [mm EXCEPT !.exc = e, !.pc = "p_raise"]

\* --- RadioDriver.parse_uri, statement group by statement group
P_Scheme(uu, mm) == IF uu.scheme = "radio" THEN [mm EXCEPT !.pc = "p_split"]
                    ELSE Raise(mm, "WrongUriType")
P_Split(uu, mm) == [mm EXCEPT !.path = Split(uu), !.pc = "p_dongle"]
P_Dongle(uu, e, mm) ==
    IF uu.wf = "dongle_empty" THEN Raise(mm, "Exception")        \* '' is no serial of any dongle
    ELSE IF uu.dk = "num" THEN [mm EXCEPT !.devid = uu.dn, !.pc = "p_chan"]
    ELSE IF uu.dn \in 1..e.nd THEN [mm EXCEPT !.devid = uu.dn - 1, !.pc = "p_chan"]
    ELSE Raise(mm, "Exception")                                  \* 'Cannot find radio with serial'
P_Chan(mm) == IF Len(mm.path) > 0
              THEN IF mm.path[1].k = "int" THEN [mm EXCEPT !.chan = mm.path[1].v, !.pc = "p_rate"]
                   ELSE Raise(mm, "ValueError")
              ELSE [mm EXCEPT !.pc = "p_rate"]
P_Rate(mm) == IF Len(mm.path) > 1 THEN [mm EXCEPT !.rate = mm.path[2].v, !.pc = "p_addr"]
              ELSE [mm EXCEPT !.pc = "p_addr"]
P_Addr(mm) == IF Len(mm.path) > 2
              THEN CASE mm.path[3].k = "hex" -> [mm EXCEPT !.addr = Bytes(mm.path[3].ds), !.pc = "p_query"]
                     [] mm.path[3].k = "nonhex" -> Raise(mm, "Error")      \* binascii.Error
                     [] OTHER -> Raise(mm, "error")                         \* struct.error
              ELSE [mm EXCEPT !.pc = "p_query"]
P_Query(uu, mm) == IF uu.wf = "rl_alpha" THEN Raise(mm, "ValueError")
                   ELSE [mm EXCEPT !.rl = uu.rl, !.pc = "p_ret"]

\* --- the scheme tests of the other drivers' connect, and whether the stubbed device lets connect succeed
ClaimsOther(d, uu) ==
    CASE d = "UsbDriver" -> uu.scheme = "usb" /\ uu.wf = "ok"       \* '^usb://([0-9]+)$'
      [] d = "TcpDriver" -> IF Bug = "two_claim" THEN uu.scheme = "udp" ELSE uu.scheme = "tcp"
      [] OTHER -> d = P!DriverOf(uu.scheme)
ConnectOK(d, uu, e) == uu.wf = "ok" /\ P!Reachable(uu, e)

\* --- after one driver's connect returned/raised: m.cres in {"wrong","ok","error"}
AfterConnect(o, cl, mm) ==
    LET d == cl[mm.i]
        m1 == [mm EXCEPT !.claims = Append(@, [drv |-> d, out |-> mm.cres])] IN
    IF o = "claim" THEN [m1 EXCEPT !.i = @ + 1, !.pc = "k_loop", !.exc = "none"]
    ELSE CASE mm.cres = "wrong" -> [m1 EXCEPT !.i = @ + 1, !.pc = "l_loop", !.exc = "none"]   \* except WrongUriType: continue
           [] mm.cres = "ok" -> [m1 EXCEPT !.link = d, !.pc = "l_ret"]
           [] OTHER -> [m1 EXCEPT !.pc = "l_raise"]

Render(c, r, a, withAddr) ==
    LET nib == [i \in 1..10 |-> IF i % 2 = 1 THEN a[(i + 1) \div 2] \div 16 ELSE a[i \div 2] % 16]
        nz == {i \in 1..10 : nib[i] # 0}
        first == IF nz = {} THEN 10 ELSE CHOOSE i \in nz : \A j \in nz : i <= j
        ds == [i \in 1..(11 - first) |-> [d |-> nib[first + i - 1], up |-> nib[first + i - 1] >= 10]]
    IN  [scheme |-> "radio", wf |-> "ok", dk |-> "num", dn |-> 0, nf |-> IF withAddr THEN 3 ELSE 2,
         chan |-> c, rate |-> CASE r = 0 -> "250K" [] r = 1 -> "1M" [] OTHER -> "2M",
         addr |-> IF withAddr THEN ds ELSE <<>>, rl |-> <<>>]

RECURSIVE SortedSeq(_)
SortedSeq(S) == IF S = {} THEN <<>>
                ELSE LET x == CHOOSE y \in S : \A z \in S : y <= z IN <<x>> \o SortedSeq(S \ {x})

StepM(uu, cl, e, o, s, rs, mm) ==
    CASE mm.pc = "p_scheme" -> P_Scheme(uu, mm)
      [] mm.pc = "p_split" -> P_Split(uu, mm)
      [] mm.pc = "p_dongle" -> P_Dongle(uu, e, mm)
      [] mm.pc = "p_chan" -> P_Chan(mm)
      [] mm.pc = "p_rate" -> P_Rate(mm)
      [] mm.pc = "p_addr" -> P_Addr(mm)
      [] mm.pc = "p_query" -> P_Query(uu, mm)
      [] mm.pc = "p_ret" -> IF o = "parse" THEN [mm EXCEPT !.pc = "done"] ELSE [mm EXCEPT !.pc = "c_radio"]
      [] mm.pc = "p_raise" ->
            IF o = "parse" THEN [mm EXCEPT !.pc = "done"]
            ELSE [mm EXCEPT !.cres = IF mm.exc = "WrongUriType" THEN "wrong" ELSE "error", !.pc = "c_after"]
      \* RadioDriver.connect after parse_uri: RadioManager.open(devid), set_channel/data_rate/address
      [] mm.pc = "c_radio" ->
            IF mm.devid < e.nd
            THEN [mm EXCEPT !.ap = [present |-> TRUE, dev |-> mm.devid, chan |-> mm.chan,
                                    rate |-> mm.rate, addr |-> mm.addr],
                            !.lrl = mm.rl, !.cres = "ok", !.pc = "c_after"]
            ELSE [mm EXCEPT !.exc = "Exception", !.cres = "error", !.pc = "c_after"]
      [] mm.pc = "c_other" ->
            LET d == cl[mm.i] IN
            IF ~ClaimsOther(d, uu) THEN [mm EXCEPT !.exc = "WrongUriType", !.cres = "wrong", !.pc = "c_after"]
            ELSE IF ConnectOK(d, uu, e) THEN [mm EXCEPT !.cres = "ok", !.pc = "c_after"]
            ELSE [mm EXCEPT !.exc = "Exception", !.cres = "error", !.pc = "c_after"]
      [] mm.pc = "c_after" -> AfterConnect(o, cl, mm)
      \* get_link_driver: for driverClass in CLASSES
      [] mm.pc = "l_loop" ->
            IF mm.i > Len(cl) THEN [mm EXCEPT !.link = "none", !.pc = "l_ret"]
            ELSE IF cl[mm.i] = "RadioDriver" THEN [mm EXCEPT !.pc = "p_scheme"]
            ELSE [mm EXCEPT !.pc = "c_other"]
      [] mm.pc = "l_ret" ->
            IF o = "lookup" THEN [mm EXCEPT !.pc = "done"]
            ELSE IF mm.link = "none"                                       \* open_link: 'No driver found or malformed URI'
                 THEN [mm EXCEPT !.failed = @ + 1, !.pc = "done"]
                 ELSE [mm EXCEPT !.pc = "done"]                            \* connection setup goes on (other properties)
      [] mm.pc = "l_raise" ->
            IF o = "lookup" THEN [mm EXCEPT !.pc = "done"]
            ELSE IF Bug = "escape" THEN [mm EXCEPT !.escaped = TRUE, !.pc = "done"]
            ELSE [mm EXCEPT !.failed = @ + 1, !.link = "none", !.pc = "done"]   \* except Exception -> connection_failed
      \* the harness' own loop: every class of the list is asked on a fresh instance
      [] mm.pc = "k_loop" ->
            IF mm.i > Len(cl) THEN [mm EXCEPT !.pc = "done"]
            ELSE IF cl[mm.i] = "RadioDriver" THEN [mm EXCEPT !.pc = "p_scheme"]
            ELSE [mm EXCEPT !.pc = "c_other"]
      \* RadioDriver.scan_interface(address)
      [] mm.pc = "s_open" -> IF e.nd = 0 THEN [mm EXCEPT !.pc = "done"]     \* no dongle: []
                             ELSE [mm EXCEPT !.pc = "s_addr"]
      \* m.raddr = the address the radio transmits on (set_address); the URIs are formatted from the argument
      [] mm.pc = "s_addr" -> [mm EXCEPT !.raddr = IF s = <<>> THEN P!DefaultAddr
                                                  ELSE IF Bug = "scan_addr_reversed" THEN [i \in 1..5 |-> s[6 - i]]
                                                  ELSE s,
                                        !.sr = 0, !.pc = "s_rate"]
      [] mm.pc = "s_rate" ->
            LET r == mm.sr                                                  \* 250K, 1M, 2M in this order
                cs == SortedSeq({x.chan : x \in {y \in rs : y.rate = r /\ y.addr = mm.raddr}})
                withAddr == Bug # "scan_no_addr" /\ s # <<>> /\ s # P!DefaultAddr
                uaddr == IF s = <<>> THEN P!DefaultAddr ELSE s
            IN [mm EXCEPT !.acked = @ \o [k \in 1..Len(cs) |-> [chan |-> cs[k], rate |-> r, addr |-> mm.raddr]],
                          !.found = @ \o [k \in 1..Len(cs) |-> Render(cs[k], r, uaddr, withAddr)],
                          !.sr = r + 1,
                          !.pc = IF r = 2 THEN "done" ELSE "s_rate"]
      [] OTHER -> mm

RECURSIVE Run(_, _, _, _, _, _, _)
Run(uu, cl, e, o, s, rs, mm) == IF mm.pc = "done" THEN mm ELSE Run(uu, cl, e, o, s, rs, StepM(uu, cl, e, o, s, rs, mm))

\* result of parse_uri as an observation record (what the harness logs for a real call)
ParseObs(mm) == IF mm.exc = "none"
                THEN [ok |-> TRUE, exc |-> "none", devid |-> mm.devid, chan |-> mm.chan, rate |-> mm.rate,
                      addr |-> mm.addr, rl |-> mm.rl]
                ELSE [ok |-> FALSE, exc |-> mm.exc, devid |-> 0, chan |-> 0, rate |-> 0, addr |-> <<>>, rl |-> <<>>]
ParseOf(uu, e) == ParseObs(Run(uu, <<>>, e, "parse", <<>>, {}, InitM("parse")))
Sel(mm) == IF mm.exc # "none" THEN "exc" ELSE mm.link
OpenObs(mm) == [escaped |-> mm.escaped, failed |-> mm.failed, link |-> mm.link, ap |-> mm.ap, lrl |-> mm.lrl]

\* ------------------------------------------------------------------ behaviours
Init == /\ classes = <<>> /\ env = CHOOSE e \in EnvSet : TRUE
        /\ stage = "setup" /\ op = "parse" /\ u = BlankUri /\ sa = <<>> /\ resp = {}
        /\ m = [InitM("parse") EXCEPT !.pc = "done"] /\ left = NOps

Setup(e) == /\ stage = "setup"
            /\ env' = e /\ classes' = ClassesFor(e) /\ stage' = "op"
            /\ UNCHANGED <<op, u, sa, resp, m, left>>

PickOp(o) == /\ stage = "op" /\ left > 0
             /\ op' = o /\ u' = BlankUri /\ sa' = <<>> /\ resp' = {}
             /\ m' = InitM(o)
             /\ stage' = IF o = "scan" THEN "sa" ELSE "scheme"
             /\ UNCHANGED <<classes, env, left>>

PickScheme(s) == /\ stage = "scheme"
                 /\ u' = [u EXCEPT !.scheme = s] /\ stage' = "wf"
                 /\ UNCHANGED <<classes, env, op, sa, resp, m, left>>
\* open_link on a well-formed URI of a non-radio scheme goes on into connection set-up (other properties):
\* only radio URIs and URIs that must fail are opened
PickWf(w) == /\ stage = "wf" /\ w \in {"ok"} \cup Malforms(u.scheme)
             /\ (op = "open" /\ w = "ok" /\ u.scheme \in P!KnownSchemes \ {"radio"})
                    => P!DriverOf(u.scheme) \notin P!Range(classes)
             /\ u' = [u EXCEPT !.wf = w]
             /\ stage' = IF u.scheme = "radio" THEN "dongle" ELSE "run"
             /\ UNCHANGED <<classes, env, op, sa, resp, m, left>>
PickDongle(d) == /\ stage = "dongle"
                 /\ u' = [u EXCEPT !.dk = d.dk, !.dn = d.dn] /\ stage' = "nf"
                 /\ UNCHANGED <<classes, env, op, sa, resp, m, left>>
PickNf(n) == /\ stage = "nf" /\ n >= MinNf(u.wf)
             /\ u' = [u EXCEPT !.nf = n] /\ stage' = IF n >= 1 THEN "chan" ELSE "rl"
             /\ UNCHANGED <<classes, env, op, sa, resp, m, left>>
PickChan(c) == /\ stage = "chan"
               /\ u' = [u EXCEPT !.chan = c] /\ stage' = IF u.nf >= 2 THEN "rate" ELSE "rl"
               /\ UNCHANGED <<classes, env, op, sa, resp, m, left>>
PickRate(r) == /\ stage = "rate"
               /\ u' = [u EXCEPT !.rate = r] /\ stage' = IF u.nf >= 3 THEN "addr" ELSE "rl"
               /\ UNCHANGED <<classes, env, op, sa, resp, m, left>>
\* the digits of a malformed URI's address do not matter: one representative
PickAddr(a) == /\ stage = "addr"
               /\ u.wf # "ok" => a = CHOOSE x \in AddrSet : TRUE
               /\ u' = [u EXCEPT !.addr = a] /\ stage' = "rl"
               /\ UNCHANGED <<classes, env, op, sa, resp, m, left>>
PickRl(x) == /\ stage = "rl"
             /\ u' = [u EXCEPT !.rl = x] /\ stage' = "run"
             /\ UNCHANGED <<classes, env, op, sa, resp, m, left>>
PickSa(a) == /\ stage = "sa"
             /\ sa' = a /\ stage' = "resp"
             /\ UNCHANGED <<classes, env, op, u, resp, m, left>>
PickResp(rs) == /\ stage = "resp"
                /\ resp' = rs /\ stage' = "run"
                /\ UNCHANGED <<classes, env, op, u, sa, m, left>>

Step == /\ stage = "run" /\ m.pc # "done"
        /\ m' = StepM(u, classes, env, op, sa, resp, m)
        /\ UNCHANGED <<classes, env, stage, op, u, sa, resp, left>>
Finish == /\ stage = "run" /\ m.pc = "done"
          /\ stage' = "op" /\ left' = left - 1
          /\ UNCHANGED <<classes, env, op, u, sa, resp, m>>

\* one whole operation in one step (used by the trace spec: one recorded event = one real call)
Macro(o, uu, s, rs) == /\ stage = "op"
                       /\ op' = o /\ u' = uu /\ sa' = s /\ resp' = rs
                       /\ m' = Run(uu, classes, env, o, s, rs, InitM(o))
                       /\ UNCHANGED <<classes, env, stage, left>>

Next == \/ \E e \in EnvSet : Setup(e)
        \/ \E o \in Ops : PickOp(o)
        \/ \E s \in Schemes : PickScheme(s)
        \/ \E w \in {"ok", "bad", "chan_alpha", "addr_nonhex", "addr_long", "rl_alpha", "dongle_empty"} : PickWf(w)
        \/ \E d \in Dongles : PickDongle(d)
        \/ \E n \in 0..3 : PickNf(n)
        \/ \E c \in Chans : PickChan(c)
        \/ \E r \in Rates : PickRate(r)
        \/ \E a \in AddrSet : PickAddr(a)
        \/ \E x \in RateLimits : PickRl(x)
        \/ \E a \in ScanAddrs : PickSa(a)
        \/ \E rs \in RespSets : PickResp(rs)
        \/ Step \/ Finish

Spec == Init /\ [][Next]_vars

\* ------------------------------------------------------------------ properties (C20), at the end of every operation
Done == stage = "run" /\ m.pc = "done"
ParseOK  == (Done /\ op = "parse")  => P!ParseClause(u, env, ParseObs(m)) = "ok"
ClaimOK  == (Done /\ op = "claim")  => P!ClaimClause(u, classes, m.claims) = "ok"
LookupOK == (Done /\ op = "lookup") => P!LookupClause(u, classes, env, Sel(m), m.ap, m.lrl) = "ok"
OpenOK   == (Done /\ op = "open")   => P!OpenClause(u, classes, env, OpenObs(m)) = "ok"
ScanOK   == (Done /\ op = "scan")   =>
               P!ScanClause(m.acked, [k \in DOMAIN m.found |-> ParseOf(m.found[k], env)]) = "ok"
\* scan reports every Crazyflie that answered (stronger than the property: design-level only)
ScanComplete == (Done /\ op = "scan") => Len(m.found) = Len(m.acked)
\* the small-step machine and the one-step Macro used for trace conformance agree
BigStepAgrees == Done => m = Run(u, classes, env, op, sa, resp, InitM(op))
TypeOK == /\ stage \in {"setup", "op", "scheme", "wf", "dongle", "nf", "chan", "rate", "addr", "rl", "sa", "resp", "run"}
          /\ left \in 0..NOps
          /\ m.cres \in {"none", "wrong", "ok", "error"}
          /\ m.link \in {"none"} \cup P!DriverNames
          /\ Len(m.addr) = 5 /\ \A k \in 1..5 : m.addr[k] \in 0..255
=============================================================================
