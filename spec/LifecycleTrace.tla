---------------------------- MODULE LifecycleTrace ----------------------------
(* Trace spec for C02.  One TLC run judges a batch of traces recorded from the real
   Crazyflie / SyncCrazyflie (Init picks a trace id; one step per event).

   monitor : rebuilds the observable history (per-attempt callback words, per-call windows) from
             the events and evaluates the LifecycleProps clauses; the first failing clause is kept
             in bad/badAt.  Nothing of the design spec is assumed.
   conform : for traces recorded with T.cm = 1 the same event list must be explained step by step
             by the design spec Lifecycle (as-is variant, constants of the real handshake):
               "op" events (th, k, c)  = the thread's next visible operation has kind k, it is
                                         enabled, the environment's choice is c  -> D!Step
               "open"/"close"/"sopen"/"sclose" = the call entries of the users
               "cb" events             = the callback must already be in the design spec's history
             conf turns FALSE at the first event the design spec cannot explain (confAt).          *)
EXTENDS Naturals, Sequences, FiniteSets, TLC, Json, IOUtils

CONSTANTS P, NPar, ErFrom, LogStart, LogEnd, ParStart, NAtt, MaxFaults, FaultBy, MaxPings, UseSync, Closer

\* the batch is read once (Init) and kept in a TLC register: re-evaluating JsonDeserialize at every reference
\* costs milliseconds per event
Traces == TLCGet(42)

VARIABLES tid, l,
          words,        \* attempt -> sequence of callback names delivered with that attempt's URI
          act,          \* active windows: Seq([kind, th, att, win, est, disc, racy, estDuring])
          nstim,        \* attempt -> [close |-> n, fail |-> n]   stimuli that may produce a disconnected
          bad, badAt,
          conf, confAt,
          sg, sstk, swords, sact, snstim, sviol, svwhen      \* the design spec's variables

Pr == INSTANCE LifecycleProps
\* which as-is behaviours the tree under test has (structural ones are measured by the harness on a
\* reference run, see harness/props/C02.py detect_defects); the same for every trace of a batch
BatchDefects == {Traces[1].defects[i] : i \in DOMAIN Traces[1].defects}
D == INSTANCE Lifecycle WITH Defects <- BatchDefects, g <- sg, stk <- sstk, words <- swords, act <- sact, nstim <- snstim, viol <- sviol, vwhen <- svwhen

T  == Traces[tid]
Ev == T.ev[l]
Atts == 0..NAtt

mvars == <<words, act, nstim, bad, badAt>>
svars == <<sg, sstk, swords, sact, snstim, sviol, svwhen>>

Init == /\ TLCSet(42, JsonDeserialize(IOEnv.TRACE_FILE))
        /\ tid \in 1..Len(Traces)
        /\ l = 1
        /\ words = [a \in Atts |-> <<>>]
        /\ act = <<>>
        /\ nstim = [a \in Atts |-> [close |-> 0, fail |-> 0]]
        /\ bad = "ok" /\ badAt = 0
        /\ conf = TRUE /\ confAt = 0
        /\ D!Init

Fail(c) == IF bad = "ok" /\ c # "ok" THEN bad' = c /\ badAt' = l ELSE UNCHANGED <<bad, badAt>>

\* the design spec takes action A, if it can
Conform(ok, A) == IF T.cm = 1 /\ conf /\ ok
                  THEN A /\ UNCHANGED <<conf, confAt>>
                  ELSE /\ conf' = (IF T.cm = 1 THEN FALSE ELSE conf)
                       /\ confAt' = (IF T.cm = 1 /\ conf THEN l ELSE confAt)
                       /\ UNCHANGED svars
Skip == UNCHANGED <<conf, confAt, svars>>

AttOf(a) == IF a \in Atts THEN a ELSE 0
BaseKind(e) == CASE e \in {"open", "open_end"} -> "open" [] e \in {"close", "close_end"} -> "close"
                 [] e \in {"lerr", "lerr_end"} -> "lerr" [] e \in {"sopen", "sopen_end"} -> "sopen"
                 [] e \in {"sclose", "sclose_end"} -> "sclose" [] OTHER -> "waitp"

\* ---- design-spec side of the users' call entries ---------------------------------------------------------
SpecCall ==
    LET t == Ev.st
        n == AttOf(Ev.att) IN
    CASE Ev.e = "open" ->
           Conform(t \in D!Users /\ n >= 1,
                   D!Commit(t, D!R(D!OpenEntry(sg, n), Append(sstk[t], D!F("open", "o_ws", n, 0)),
                                   <<D!HBeg("open", n), D!HCb("requested", n, 0, 0)>>, {})))
      [] Ev.e = "close" ->
           Conform(t \in D!Users /\ n >= 1,
                   D!Commit(t, D!R(sg, Append(sstk[t], D!F("close", "c_rl1", n, 0)), <<D!HBeg("close", n)>>, {})))
      [] Ev.e = "sopen" ->
           Conform(t \in D!Users,
                   IF sg.sOpen THEN UNCHANGED svars
                   ELSE D!Commit(t, D!R([sg EXCEPT !.sCbs = TRUE, !.sConn = "clear"],
                                        Append(sstk[t], D!F("sopen", "so_wait", n, 0)), <<>>, {})))
      [] Ev.e = "sclose" ->
           Conform(t \in D!Users,
                   IF ~sg.sOpen THEN UNCHANGED svars
                   ELSE D!Commit(t, D!R([sg EXCEPT !.sDisc = "clear"],
                                        Append(sstk[t], D!F("sclose", "sc_wait", n, 0)), <<>>, {})))
      [] Ev.e = "waitp" -> Conform(FALSE, UNCHANGED svars)      \* wait_for_params is not modelled
      [] OTHER -> Skip

\* ---- a call / report begins -------------------------------------------------------------------------
Begin == /\ Ev.e \in {"open", "close", "lerr", "sopen", "sclose", "waitp"}
         /\ LET a == AttOf(Ev.att) IN
            /\ act' = Pr!WinBegin(act, words[a], Ev.e, Ev.th, a)
            /\ nstim' = IF Ev.e = "close" THEN [nstim EXCEPT ![a].close = @ + 1]
                        ELSE IF Ev.e = "lerr" THEN [nstim EXCEPT ![a].fail = @ + 1]
                        ELSE nstim
         /\ UNCHANGED <<words, bad, badAt>>
         /\ SpecCall

\* ---- a call / report ends: judge its window ------------------------------------------------------------
End == /\ Ev.e \in {"open_end", "close_end", "lerr_end", "sopen_end", "sclose_end", "waitp_end"}
       /\ LET i == Pr!InnermostOf(act, Ev.th, {BaseKind(Ev.e)})
          IN IF i = 0 THEN UNCHANGED <<act, bad, badAt>>
             ELSE /\ act' = Pr!WinRemove(act, i)
                  /\ Fail(Pr!WinClause(act[i], words[act[i].att]))
       /\ UNCHANGED <<words, nstim>>
       /\ Skip

\* ---- a public callback is delivered -------------------------------------------------------------------
Callback == /\ Ev.e = "cb"
            /\ LET a == AttOf(Ev.att)
                   w == Append(words[a], Ev.name)
               IN /\ words' = [words EXCEPT ![a] = w]
                  /\ act' = Pr!WinCallback(act, Ev.th, Ev.name, a)
                  /\ Fail(Pr!CallbackClause(w, Ev.name, Ev.tocs, Ev.vals))
                  /\ Conform(Len(swords[a]) >= Len(w) /\ swords[a][Len(w)] = Ev.name, UNCHANGED svars)
            /\ UNCHANGED nstim

\* ---- a visible scheduling operation of the real code --------------------------------------------------
Op == /\ Ev.e = "op"
      /\ UNCHANGED mvars
      /\ Conform(Ev.st \in D!Threads /\ D!OpKind(Ev.st) = Ev.k /\ D!En(Ev.st, Ev.c), D!Commit(Ev.st, D!Eff(Ev.st, Ev.c)))

\* ---- quiescence report and epilogue -------------------------------------------------------------------
Spurious == \* over the whole history (a slow close_link may deliver its disconnected with the next attempt's URI)
    LET RECURSIVE Sum(_, _)
        Sum(f, S) == IF S = {} THEN 0 ELSE LET x == CHOOSE x \in S : TRUE IN f[x] + Sum(f, S \ {x})
        nd == [a \in Atts |-> Pr!Count(words[a], "disconnected")]
        nl == [a \in Atts |-> Pr!Count(words[a], "lost")]
        nc == [a \in Atts |-> nstim[a].close + nstim[a].fail]
        nf == [a \in Atts |-> nstim[a].fail]
    IN Sum(nd, Atts) > Sum(nc, Atts) \/ Sum(nl, Atts) > Sum(nf, Atts)
Quiet == /\ Ev.e = "quiet"
         /\ Fail(LET c == Pr!QuietClause(T.q, nstim[AttOf(T.n)].close + nstim[AttOf(T.n)].fail > 0) IN
                 IF c # "ok" THEN c ELSE IF Spurious THEN "SpuriousDisconnected" ELSE "ok")
         /\ UNCHANGED <<words, act, nstim>>
         /\ Skip

Epilogue == /\ Ev.e = "epi"
            /\ Fail(Pr!EpilogueClause(T.epi.connected, T.epi.fully))
            /\ UNCHANGED <<words, act, nstim>>
            /\ Skip

Step == /\ l <= Len(T.ev)
        /\ l' = l + 1 /\ UNCHANGED tid
        /\ (Begin \/ End \/ Callback \/ Op \/ Quiet \/ Epilogue)

Finish == /\ l = Len(T.ev) + 1
          /\ l' = l + 1
          /\ PrintT(<<"VERDICT", T.id, bad, badAt, conf, confAt>>)
          /\ UNCHANGED <<tid, mvars, conf, confAt, svars>>

Next == Step \/ Finish
Spec == Init /\ [][Next]_<<tid, l, mvars, conf, confAt, svars>>
=============================================================================
