SPECIFICATION Spec
CONSTANTS
  Bug = "none"
  EnvSet <- EnvSim
  Ops <- AllOps
  Schemes <- AllSchemes
  Dongles <- DonglesSim
  Chans <- ChansSim
  Rates = {"250K", "1M", "2M"}
  AddrSet <- AddrSim
  RateLimits <- RlThorough
  ScanAddrs <- ScanAddrsThorough
  RespSets <- RespThorough
  NOps = 4
CHECK_DEADLOCK FALSE
