SPECIFICATION Spec
CONSTANTS
  Crcs <- Crcs2
  CrcSeq <- CrcSeq2
  LogTables <- LogEmpty
  ParamTables <- ParOnlyEmpty
  FLen = 2
  Alias <- AliasBeef
  Bug = "none"
  MaxConnect = 3
  MaxCrash = 1
  MaxOther = 0
  OtherTables <- OtherTabs
  MaxEnv = 1
INVARIANT SetupsOK
INVARIANT ConnectionOK
INVARIANT RoNeverWritten
INVARIANT TypeOK
INVARIANT KnownInDirs
CHECK_DEADLOCK FALSE
