---- MODULE MC_Flight ----
EXTENDS Flight
Pr(op, a, b, c, v, w) == [op |-> op, a |-> a, b |-> b, c |-> c, v |-> v, w |-> w]
\* MotionCommander: forward 0.2 (default velocity), right 0.1 at 0.5, down 0.3 (to the ground from the
\* default height), up 0.1 at 0.2, turn_left 36 deg, start_down, stop, a zero-length move (raises), raise,
\* the body waits 0.15 s (less than the update period), a full turn (360 deg)
McQuick == {Pr("move", 200, 0, 0, 0, 0), Pr("move", 0, -100, 0, 500, 0), Pr("move", 0, 0, -300, 0, 0),
            Pr("turn", 1, 36, 0, 72, 0), Pr("start", 0, 0, -200, 0, 0), Pr("stop", 0, 0, 0, 0, 0),
            Pr("raise", 0, 0, 0, 0, 0), Pr("wait", 150, 0, 0, 0, 0), Pr("turn", 1, 360, 0, 72, 0),
            Pr("raise", 1, 0, 0, 0, 0)}                      \* the body is left by a KeyboardInterrupt
\* programs about time: the same command again some time after the last setpoint (stop while hovering, a
\* velocity commanded again unchanged), pauses shorter and longer than the update period
McTimed == {Pr("wait", 150, 0, 0, 0, 0), Pr("wait", 500, 0, 0, 0, 0), Pr("stop", 0, 0, 0, 0, 0),
            Pr("start", 100, 0, 0, 0, 0), Pr("start", 0, 0, -200, 0, 0)}
\* + up 0.1, quarter circle left r=0.1, diagonal 0.3/0.4 at 0.5, start_circle_right, start_linear_motion
\*   with yaw, turn_right 90 at 90, back 0.1 at 0.1, zero-length move, turn_right 450 at 90 (more than a
\*   full turn), a wait longer than the update period
McThorough == McQuick \cup
           {Pr("move", 0, 0, 100, 200, 0), Pr("circle", 1, 90, 100, 200, 0), Pr("move", 300, 400, 0, 500, 0),
            Pr("startcircle", -1, 0, 200, 500, 0), Pr("start", 100, -100, 100, 0, 45),
            Pr("turn", -1, 90, 0, 90, 0), Pr("move", -100, 0, 0, 100, 0), Pr("move", 0, 0, 0, 0, 0),
            Pr("turn", -1, 450, 0, 90, 0), Pr("wait", 500, 0, 0, 0, 0),
            Pr("raise", 2, 0, 0, 0, 0), Pr("raise", 4, 0, 0, 0, 0)}       \* SystemExit, a direct BaseException subclass
\* PositionHlCommander: forward 0.5, down 0.6 (below the landing height), 0/-0.3/0.4 diagonal at 0.25,
\* go_to(1, 0) at default height, set_default_velocity, set_default_height, set_landing_height, raise
HlQuick == {Pr("move", 500, 0, 0, 0, 0), Pr("move", 0, 0, -600, 0, 0), Pr("goto", 1000, 0, 0, 0, 1),
            Pr("setv", 0, 0, 0, 250, 0), Pr("seth", 0, 0, 300, 0, 0), Pr("raise", 0, 0, 0, 0, 0)}
\* several flights of one object (land on the default / on another height, take off again to the default / another
\* height), from a start position that is not the origin
HlCycle == {Pr("land", 0, 0, 0, 0, 1), Pr("land", 0, 0, 0, 250, 0), Pr("takeoff", 0, 0, 0, 0, 1), Pr("takeoff", 0, 0, 300, 250, 0),
            Pr("move", 500, 0, 0, 0, 0), Pr("move", 0, 0, 200, 0, 0), Pr("setl", 0, 0, 100, 0, 0), Pr("raise", 3, 0, 0, 0, 0)}
Lat3 == {150, 200, 250}
Lat2 == {150, 250}
Lat1 == {250}
HlThorough == HlQuick \cup
           {Pr("move", 0, -300, 400, 250, 0), Pr("goto", 0, 0, 1000, 500, 0), Pr("setl", 0, 0, 700, 0, 0),
            Pr("move", 0, 0, 0, 0, 0), Pr("goto", 300, 400, 0, 100, 1)}
HlSim == HlThorough \cup HlCycle
====
