SPECIFICATION Spec
CONSTANTS
  Bug = "none"
  Kinds <- AllKinds
  HiBytes <- AllBytes
  K = 1000
  MmCoarse <- MmThorough
  DdCoarse <- DdThorough
  MmShift = 10
  DdShift = 8
  RgbI <- RgbIAll
  RgbOthers <- AllBytes
  F32s <- F32Vals
  LhBases = 8
  LhPos <- LhPosAll
  OffHi <- AllBytes
  StreamLen = 3
  StreamBases = 3
  StreamPos <- StreamPosBoth
  StreamOffHi <- StreamOffThorough
INVARIANT Fp16OK
INVARIANT QuatOK
INVARIANT TrajOK
INVARIANT RgbOK
INVARIANT RangeOK
INVARIANT LhOK
INVARIANT KeptOK
INVARIANT TypeOK
CHECK_DEADLOCK FALSE
