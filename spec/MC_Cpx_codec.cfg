SPECIFICATION Spec
CONSTANTS
  Packets <- PacketsAll
  MaxPackets = 1
  NR = 0
  RFns <- RFnsRoute
  SendSets <- NoSenders
  MaxSends = 0
  Mode = "transport"
  LateRegister = FALSE
  Bug = "none"
INVARIANT TypeOK
INVARIANT CodecOK
INVARIANT ReadsOK
INVARIANT RouteOK
INVARIANT DownOK
INVARIANT UpOK
CHECK_DEADLOCK FALSE
