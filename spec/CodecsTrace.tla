------------------------------ MODULE CodecsTrace ------------------------------
(* Trace spec for C13.  One TLC run judges a whole batch of traces recorded from the real codec
   functions of cflib: Init picks a trace id, one event (= one call of the real code with its
   exactly converted input and output) is consumed per step.

   monitor  (the verdict): CodecsProps clauses evaluated on the recorded (input, output) pair;
            the first failing event and its clause are remembered, all failing events counted
            (the harness re-submits the events after the first failure one by one, so every
            failing call gets its own verdict).  The VERDICT line stays below 80 characters
            (TLC wraps longer tuples): ids < 10^5, at most 256 events per trace.
   conform  (the binding): the recorded output must be the output of the design-spec operator of
            Codecs.tla for that input: exactly for fp16 (value, zero sign and Python type), the
            packed trajectory bytes, the RGB565 bytes, range and lighthouse decoding; for the
            quaternion word through the relation form IsCompress (index, sign bits, and each
            magnitude is *the* round-half-up integer), for the doubles of decompress_quaternion
            through IsDecompress (within 2^-18 / 2^-17 of the real values the code approximates).
            An accepted but unexplained event is drift (counted, never a violation).

   Trace: [id, kind, ev, ...]; kinds and event fields:
     "fp16"  [h, o]                       pattern 0..65535, o Num
     "quat"  [q, w, d]                    q: 4 Num, w: [s, b, hi], d: 4 Num
     "traj"  [hdr, hb, lens, ms, xs, r, b] one pack(): hdr = number of header bytes (0 start / 3
                                           segment), expected header parameters, coordinates
     "rgb"   trace fields ch, I, o1, o2 ; events [lvl, r, b]  one level of a sweep
     "range" [data, o]   "lh" [data, o]
     "stream" [t, data, o, late]          one packet of a stream received by ONE Localization
                                          object: t = "lh" | "range", o as above (seen at
                                          delivery), late = the same delivered object read after
                                          the whole stream was received (at most 64 per trace)   *)
EXTENDS Integers, Sequences, FiniteSets, TLC, Json, IOUtils, CodecsNum

Traces == JsonDeserialize(IOEnv.TRACE_FILE)

CONSTANT Bug                       \* which design-spec variant the conformance half uses ("none")
VARIABLES tid, l, prevF, nbad, bad, badAt, nconf, confAt, ndrift,
          kind, args, out, prev, phase, heap, kept    \* design-spec variables (unused: pure functions)

Kinds == {}  HiBytes == {}  K == 0  MmCoarse == {}  DdCoarse == {}  MmShift == 0  DdShift == 0
RgbI == {}  RgbOthers == {}  F32s == <<>>  LhBases == 0  LhPos == {}  OffHi == {}
StreamLen == 0  StreamBases == 0  StreamPos == {}  StreamOffHi == {}
C == INSTANCE Codecs
P == INSTANCE CodecsProps

T == Traces[tid]
Ev == T.ev[l]
tvars == <<tid, l, prevF, nbad, bad, badAt, nconf, confAt, ndrift>>
specvars == <<kind, args, out, prev, phase, heap, kept>>

Init == /\ tid \in 1..Len(Traces)
        /\ l = 1 /\ prevF = <<>>
        /\ nbad = 0 /\ bad = "ok" /\ badAt = 0 /\ nconf = 0 /\ confAt = 0 /\ ndrift = 0
        /\ kind = "none" /\ args = <<>> /\ out = <<>> /\ prev = <<>> /\ phase = "kind"
        /\ heap = <<>> /\ kept = <<>>

RgbNow == P!RgbFields(Ev.b[1], Ev.b[2])
RgbIn == C!RgbArgs(T.ch, Ev.lvl, T.o1, T.o2)

\* ---- monitor: the property clause of this event
Clause ==
    CASE T.kind = "fp16"  -> P!Fp16Clause(Ev.h, Ev.o)
      [] T.kind = "quat"  -> P!QuatClause(Ev.q, Ev.w, Ev.d)
      [] T.kind = "traj"  -> P!PackClause(Ev.hdr, Ev.xs, Ev.r, Ev.b)
      [] T.kind = "rgb"   -> IF Ev.r # "val" THEN "RgbOverflow"
                             ELSE P!RgbStepClause(T.ch, Ev.lvl, T.I, prevF, RgbNow)
      [] T.kind = "range" -> P!RangeClause(Ev.data, Ev.o)
      [] T.kind = "lh"    -> P!LhClause(Ev.data, Ev.o)
      [] T.kind = "stream" -> IF Ev.t = "lh" THEN P!LhKeptClause(Ev.data, Ev.o, Ev.late)
                              ELSE P!RangeKeptClause(Ev.data, Ev.o, Ev.late)

\* ---- conformance: the design spec computes the same output
SameNum(a, b) == /\ a.c = b.c
                 /\ a.c = "inf" => a.s = b.s
                 /\ a.c = "fin" => /\ DEq(P!ToD(a), P!ToD(b))
                                   /\ (a.m = <<>> /\ a.t = "float" /\ b.t = "float") => a.s = b.s
SameNums(as, bs) == Len(as) = Len(bs) /\ \A i \in DOMAIN as : SameNum(as[i], bs[i])
SegHeader == LET ty(n) == IF n = 0 THEN 0 ELSE IF n = 1 THEN 1 ELSE IF n = 3 THEN 2 ELSE 3 IN
             <<ty(Ev.lens[1]) + 4 * ty(Ev.lens[2]) + 16 * ty(Ev.lens[3]) + 64 * ty(Ev.lens[4]),
               Ev.ms % 256, Ev.ms \div 256>>
Conforms ==
    CASE T.kind = "fp16"  -> SameNum(C!ImplFp16(Ev.h), Ev.o) /\ Ev.o.t = C!ImplFp16(Ev.h).t
      [] T.kind = "quat"  -> /\ P!QuatFits32(Ev.w)
                             /\ C!IsCompress(Ev.q, C!FieldsOf(Ev.w))
                             /\ C!IsDecompress(C!FieldsOf(Ev.w), Ev.d)
      [] T.kind = "traj"  -> LET r == C!ImplPack(Ev.xs) IN
                             /\ r.r = Ev.r
                             /\ Ev.r = "val" => Ev.b = (IF Ev.hdr = 0 THEN <<>> ELSE SegHeader) \o r.b
      [] T.kind = "rgb"   -> Ev.r = "val" /\ Ev.b = C!ImplRgb(RgbIn[1], RgbIn[2], RgbIn[3], T.I)
      [] T.kind = "range" -> LET r == C!ImplRange(Ev.data) IN
                             Ev.o.called /\ Ev.o.ids = r.ids /\ SameNums(r.vals, Ev.o.vals)
      [] T.kind = "lh"    -> LET r == C!ImplLh(Ev.data) IN
                             Ev.o.called /\ Ev.o.bs = r.bs /\ SameNums(r.x, Ev.o.x) /\ SameNums(r.y, Ev.o.y)
      \* a packet of a stream: the design spec hands out a fresh object per packet (Receive), so
      \* what was seen at delivery and what is read later are both the decoder's output
      [] T.kind = "stream" -> IF Ev.t = "lh"
                              THEN LET r == C!ImplLh(Ev.data)
                                       same(o) == o.called /\ o.bs = r.bs /\ SameNums(r.x, o.x) /\ SameNums(r.y, o.y)
                                   IN same(Ev.o) /\ same(Ev.late)
                              ELSE LET r == C!ImplRange(Ev.data)
                                       same(o) == o.called /\ o.ids = r.ids /\ SameNums(r.vals, o.vals)
                                   IN same(Ev.o) /\ same(Ev.late)

Step == /\ l <= Len(T.ev)
        /\ l' = l + 1 /\ UNCHANGED tid
        /\ LET c == Clause
               k == Conforms
           IN /\ nbad' = IF c = "ok" THEN nbad ELSE nbad + 1
              /\ bad' = IF c # "ok" /\ bad = "ok" THEN c ELSE bad
              /\ badAt' = IF c # "ok" /\ bad = "ok" THEN l ELSE badAt
              /\ nconf' = IF k THEN nconf ELSE nconf + 1
              /\ confAt' = IF ~k /\ nconf = 0 THEN l ELSE confAt
              /\ ndrift' = IF ~k /\ c = "ok" THEN ndrift + 1 ELSE ndrift     \* drift: accepted but unexplained
        /\ prevF' = IF T.kind = "rgb" /\ Ev.r = "val" THEN RgbNow ELSE <<>>
        /\ UNCHANGED specvars

Finish == /\ l = Len(T.ev) + 1
          /\ l' = l + 1
          /\ PrintT(<<"VERDICT", T.id, bad, badAt, nconf = 0, confAt, nbad, ndrift>>)
          /\ UNCHANGED <<tid, prevF, nbad, bad, badAt, nconf, confAt, ndrift, specvars>>

Next == Step \/ Finish
Spec == Init /\ [][Next]_<<tid, l, prevF, nbad, bad, badAt, nconf, confAt, ndrift, specvars>>
=============================================================================
