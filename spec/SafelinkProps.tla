------------------------------ MODULE SafelinkProps ------------------------------
(* C01 -- the listed property over observable history only, plus the environment it is stated
   against (the nRF ESB "safelink" peer rule of the Crazyflie radio firmware).

   Bytes are 0..255, a packet / frame / ack payload is a Seq(0..255) whose first byte is the CRTP
   header.  Header bit 3 = uplink sequence bit, bit 2 = downlink sequence bit (safelink);
   Mask(h) clears both.  A header with Mask(h) = 243 (port 15, channel 3) is a null packet:
   not a "packet" in the sense of the property in either direction (DESIGN 3.1(1)).

   Observable history  h  (a record):
     (the four packet histories are projected: nulls dropped, sequence bits masked -- AddPkt)
     acc   : Seq(pkt)   packets accepted by RadioDriver.send_packet (returned True), in the order
                        the calls took effect
     cf    : Seq(pkt)   frames the peer took as NEW uplink packets (what "reaches the Crazyflie")
     cfq   : Seq(pkt)   packets the Crazyflie queued for the host, in queueing order
     got   : Seq(pkt)   packets returned by RadioDriver.receive_packet (non-None)
     link  : Seq({"A","L","E"})  main-loop transmissions acknowledged / unacknowledged, and link
                        error reports, in order of occurrence (from the last "A" on: LinkAppend)
     echo  : BOOLEAN    the peer's exact echo ff 05 01 was handed to the driver as the reply to one
                        of its start-up frames ("the peer confirmed it during link start-up")
     conf  : BOOLEAN    the same for the FIRST start-up, before any pause request: the session the
                        exactly-once claims are about
     slUsed: BOOLEAN    some main-loop frame carried sequence bits (header bits 3,2 # 11)
     nrFalse: BOOLEAN   the driver told the upper layer needs_resending = False
     peerSL: BOOLEAN    the peer is one "that supports safelink"
     failed: BOOLEAN    a link error has been reported (the histories acc/cf/cfq/got are those
                        "short of a link failure": the monitor freezes them at the first report)
     closed: BOOLEAN    the application has asked the driver to pause (RadioDriver.pause()); the
                        exactly-once claims end there as well (stop() abandons the frame in flight)
   SESSIONS.  RadioDriver.pause()/restart() run a new comm thread, i.e. a new link start-up, on the
   same driver object.  echo, slUsed, nrFalse and link are PER START-UP: they are reset when a
   restart begins (SessionReset), so that "safelink is used only if the peer confirmed it during
   link start-up" is asserted for every start-up against the confirmation of THAT start-up, and the
   unacknowledged-run count begins anew with the new comm thread.
   Readings fixed in DESIGN 3.1(1) and reports/C01.md. *)
EXTENDS Naturals, Sequences, FiniteSets

\* ---------------------------------------------------------------- bytes
Bit2(h) == (h \div 4) % 2
Bit3(h) == (h \div 8) % 2
Mask(h) == h - 4 * ((h \div 4) % 4)                 \* h & 0xF3
WithBits(h, b3, b2) == Mask(h) + 8 * b3 + 4 * b2
NullHdr == 243                                        \* 0xF3
IsNull(p) == Len(p) = 0 \/ Mask(p[1]) = NullHdr
Norm(p) == IF Len(p) = 0 THEN p ELSE <<Mask(p[1])>> \o Tail(p)

NegFrame == <<255, 5, 1>>                             \* ff 05 01
IsService(f) == Len(f) = 3 /\ Mask(f[1]) = NullHdr /\ f[2] = 5

\* ---------------------------------------------------------------- the peer (environment assumption)
(* State of the peer's radio (nRF51 ESB of the Crazyflie):
     mode : "sl"   firmware with safelink: answers the service frame with its echo
            "nosl" firmware without safelink: the service frame is an ordinary (null-port) packet
            "deny" answers the service frame with `deny` (any non-echo payload), safelink stays off
     sl   : safelink currently enabled         up, down : the peer's sequence bits (1,1 after the
     service frame)     txq : packets queued for the host, head = oldest, the head stays queued
     until the host acknowledged it       last : payload of the last acknowledgement sent
     lastTx : that payload was Head(txq)     tail : bytes that follow the header of an empty ack
     (<<1, rssi>> with RSSI_ACK_PACKET, <<>> without)
   PeerRx(p, f) = [p |-> new state, ack |-> ack payload, new |-> f was taken as a new uplink packet]
   Rule (DESIGN 5/C01): a frame whose up-bit differs from p.up is new (deliver, flip); a frame whose
   down-bit differs from p.down acknowledges the previous downlink payload (drop it from the queue,
   flip, send the next one or an empty ack carrying the bits); otherwise the last payload is
   repeated.  Without safelink every frame is new and every frame acknowledges. *)
PeerInit(mode, tail, deny) ==
    [mode |-> mode, sl |-> FALSE, up |-> 1, down |-> 1, txq |-> <<>>, last |-> <<>>,
     lastTx |-> FALSE, tail |-> tail, deny |-> deny]

PeerQueue(p, pkt) == [p EXCEPT !.txq = Append(@, pkt)]

PeerRx(p, f) ==
    IF IsService(f) /\ p.mode = "sl"
    THEN [p |-> [p EXCEPT !.sl = (f[3] # 0), !.up = 1, !.down = 1, !.last = f, !.lastTx = FALSE],
          ack |-> f, new |-> FALSE]
    ELSE IF IsService(f) /\ p.mode = "deny"
    THEN [p |-> [p EXCEPT !.last = p.deny, !.lastTx = FALSE], ack |-> p.deny, new |-> FALSE]
    ELSE
      LET new == ~p.sl \/ Bit3(f[1]) # p.up
          up1 == IF new THEN 1 - p.up ELSE p.up
          adv == ~p.sl \/ Bit2(f[1]) # p.down
          dn1 == IF adv THEN 1 - p.down ELSE p.down
          q1  == IF adv /\ p.lastTx /\ p.txq # <<>> THEN Tail(p.txq) ELSE p.txq
          hdr(h) == IF p.sl THEN WithBits(h, up1, dn1) ELSE h
          pay == IF ~adv THEN p.last
                 ELSE IF q1 # <<>> THEN <<hdr(Head(q1)[1])>> \o Tail(Head(q1))
                 ELSE <<hdr(255)>> \o p.tail
      IN [p |-> [p EXCEPT !.up = up1, !.down = dn1, !.txq = q1, !.last = pay,
                          !.lastTx = IF adv THEN q1 # <<>> ELSE p.lastTx],
          ack |-> pay, new |-> new]

\* the USB reply the dongle hands to the driver for outcome o ("A" delivered and acked,
\* "U" uplink lost, "L" delivered but ack lost): status byte (bit 0 = acked) followed by the payload
UsbReply(o, ack) == IF o = "A" THEN <<1>> \o ack ELSE <<0>>
IsEchoReply(rep) == Len(rep) = 4 /\ rep[1] % 2 = 1 /\ Tail(rep) = NegFrame

\* ---------------------------------------------------------------- the property
\* The four packet histories are kept PROJECTED: built only with AddPkt (nulls dropped, sequence
\* bits masked), so that the clauses below are plain sequence comparisons.
AddPkt(s, p) == IF IsNull(p) THEN s ELSE Append(s, Norm(p))

IsPrefix(s, t) == Len(s) <= Len(t) /\ \A i \in 1..Len(s) : s[i] = t[i]
\* the same, one element at a time (for long traces): the newest element of s is in place
LastInPlace(s, t) == Len(s) = 0 \/ (Len(s) <= Len(t) /\ s[Len(s)] = t[Len(s)])

\* exactly-once and in-order are claimed for sessions with a safelink peer in which the peer's
\* confirmation reached the driver
Claimed(h) == h.peerSL /\ h.conf

UpExactlyOnceInOrder(h)   == Claimed(h) => IsPrefix(h.cf, h.acc)
DownExactlyOnceInOrder(h) == Claimed(h) => IsPrefix(h.got, h.cfq)
UpStep(h)   == Claimed(h) => LastInPlace(h.cf, h.acc)
DownStep(h) == Claimed(h) => LastInPlace(h.got, h.cfq)

\* The link history may be kept from the last acknowledged transmission on (LinkAppend): the
\* clauses below never look further back.
LinkAppend(l, x) == IF x = "A" THEN <<"A">> ELSE Append(l, x)
\* number of consecutive unacknowledged transmissions ending at index k of l (reports skipped);
\* no recursion: loss runs of hundreds of transmissions must not exhaust TLC's stack
LastAck(l, k) == IF \E i \in 1..k : l[i] = "A"
                 THEN CHOOSE i \in 1..k : l[i] = "A" /\ \A j \in (i + 1)..k : l[j] # "A"
                 ELSE 0
RunAt(l, k) == Cardinality({i \in (LastAck(l, k) + 1)..k : l[i] = "L"})
\* a report is owed right after the transmission (index k) that made the run reach n, and only then
OwedAt(l, k, n) == k > 0 /\ l[k] = "L" /\ RunAt(l, k) = n
\* item i of the link history is legal after items 1..i-1
LinkItemOK(l, i, n) ==
    IF l[i] = "E" THEN OwedAt(l, i - 1, n)  \* a report only when the run has just reached n
    ELSE ~OwedAt(l, i - 1, n)               \* the next transmission only after the owed report
LinkItemClause(l, i, n) ==
    IF LinkItemOK(l, i, n) THEN "ok"
    ELSE IF l[i] = "E" THEN "SpuriousLinkError" ELSE "MissingLinkError"
LinkErrorExactlyAtCount(l, n) == \A i \in 1..Len(l) : LinkItemOK(l, i, n)
\* at quiescence (radio loop parked at its next transmission) no report may be outstanding
LinkQuiescentOK(l, n) == ~OwedAt(l, Len(l), n)

SafelinkOnlyIfConfirmed(h) == (h.slUsed \/ h.nrFalse) => h.echo

\* bounded reading of "reaches": once nothing more is submitted or queued and DrainNeed(h)
\* consecutive transmissions were acknowledged, everything has arrived (every acknowledged
\* transmission can carry one packet each way; the monitor decides `drained` from the trace)
DrainNeed(h) == Len(h.acc) + Len(h.cfq) + 4
Frozen(h) == h.failed \/ h.closed
UpComplete(h)   == Claimed(h) /\ ~Frozen(h) => h.cf = h.acc
DownComplete(h) == Claimed(h) /\ ~Frozen(h) => h.got = h.cfq
\* a restart (new start-up on the same driver object) begins: the per-start-up observations start anew
SessionReset(h) == [h EXCEPT !.echo = FALSE, !.slUsed = FALSE, !.nrFalse = FALSE, !.link = <<>>]

FirstBadLink(l, n) ==
    LET bad == {i \in 1..Len(l) : ~LinkItemOK(l, i, n)} IN
    LinkItemClause(l, CHOOSE i \in bad : \A j \in bad : i <= j, n)

\* first failing clause of the safety part, whole history
HistoryClause(h, n) ==
    IF ~SafelinkOnlyIfConfirmed(h) THEN "SafelinkOnlyIfConfirmed"
    ELSE IF ~UpExactlyOnceInOrder(h) THEN "UpExactlyOnceInOrder"
    ELSE IF ~DownExactlyOnceInOrder(h) THEN "DownExactlyOnceInOrder"
    ELSE IF ~LinkErrorExactlyAtCount(h.link, n) THEN FirstBadLink(h.link, n)
    ELSE "ok"
HistoryOK(h, n) == HistoryClause(h, n) = "ok"

\* incremental form (what the newest event can have broken); by induction over the append-only
\* histories  (\A prefixes: StepClause = "ok")  <=>  HistoryClause = "ok"  -- checked by TLC on the
\* design spec (invariant StepEquivalent of Safelink.tla)
StepClause(h, n) ==
    IF ~SafelinkOnlyIfConfirmed(h) THEN "SafelinkOnlyIfConfirmed"
    ELSE IF ~UpStep(h) THEN "UpExactlyOnceInOrder"
    ELSE IF ~DownStep(h) THEN "DownExactlyOnceInOrder"
    ELSE IF h.link # <<>> /\ ~LinkItemOK(h.link, Len(h.link), n) THEN LinkItemClause(h.link, Len(h.link), n)
    ELSE "ok"

\* end of a quiescent execution; drained = the completeness claim applies
FinalClause(h, n, drained) ==
    IF HistoryClause(h, n) # "ok" THEN HistoryClause(h, n)
    ELSE IF ~LinkQuiescentOK(h.link, n) THEN "MissingLinkError"
    ELSE IF drained /\ ~UpComplete(h) THEN "UpComplete"
    ELSE IF drained /\ ~DownComplete(h) THEN "DownComplete"
    ELSE "ok"
=============================================================================
