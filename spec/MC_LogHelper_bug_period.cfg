SPECIFICATION Spec
CONSTANTS
  Mode = "ranger"
  Rates = {100}
  Scripts <- RScripts
  Vectors <- RVectors
  MaxData = 1
  MaxQ = 2
  Times = {100}
  LinkLoss = FALSE
  HasKalman = {TRUE}
  Bug = "period"
VIEW view
CHECK_DEADLOCK FALSE
INVARIANT NoStartNotAsConfigured
