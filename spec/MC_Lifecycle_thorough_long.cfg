SPECIFICATION Spec
CONSTANTS
  P = 3
  NPar = 2
  ErFrom = 2
  LogStart = 0
  LogEnd = 0
  ParStart = 1
  NAtt = 2
  MaxFaults = 1
  FaultBy <- AllFaults
  MaxPings = 2
  UseSync = FALSE
  Closer = FALSE
  Defects <- Repaired
INVARIANT HistoryOK
INVARIANT QuietOK
INVARIANT ReconnectOK
INVARIANT NoThreadDies
INVARIANT TypeOK
CHECK_DEADLOCK FALSE
