------------------------------ MODULE LogHelperProps ------------------------------
(* X02 (extra specification, DESIGN 8(4)) -- what a user of the two log-based helpers relies on:
     cflib.utils.multiranger.Multiranger                     (mode "ranger")
     cflib.utils.reset_estimator.reset_estimator             (mode "estimator"; SyncLogger as far as it uses it)
   stated over observable history only.  No entry in properties.jsonl; guarantees taken from the
   code's evident intent (class layout, property names, the loop of _wait_for_position_estimator).

   Log variables are numbers: ranger 1..6 = range.front, back, left, right, up, zrange;
   estimator 1..3 = kalman.varPX, varPY, varPZ.  A block variable is <<number, fetch type, stored type>>
   with the firmware's type ids (2 = uint16_t, 7 = float).

   Events (records with the fields e, op, cmd, id, vars, per, st, vals, read, v, t, res):
     begin op res      a helper operation starts: "start" "stop" "enter" "exit" "reset"
                       (exit: res = "exc" when the with-body raised)
     end   op res      it returned (res = "" | "self"/"other" for enter | "propagated"/"swallowed" for an
                       exit after a raising body) or raised (res = exception class name)
     ctl   cmd id vars per   the device received a log control message ("create" "append" "start" "stop"
                       "delete" "reset"), variables as the firmware decodes them
     ack   cmd id st   its acknowledgement was dispatched by the library
     data  id vals read   a data packet of block id was dispatched; vals = the values the device put in,
                       in block order (ranger: millimetres; estimator: value * 65536, exact);
                       read = (ranger) the six properties front, back, left, right, up, down read right
                       after the dispatch, in millimetres, -1 = None, -2 = anything else
     take  vals        (binding only) the estimator loop took the next sample from the SyncLogger
     pcall v t         reset_estimator called Param.set_value('kalman.resetEstimation', v) at time t ms
     pset  v           that write reached the device
     down              the connection went away

   Guarantees (clause names):
   Multiranger
     R1 CreateNotAsConfigured   start() creates one block with exactly range.front, back, left, right, up,
                                zrange in this order, each fetched as stored (uint16)
        StartNotAsConfigured    logging is started for that block, after its creation was acknowledged,
                                with period rate_ms / 10
        StartDidNotCreate       start() returns only after the creation message was sent
     R2 WrongDistance           after every dispatched data packet each property equals the value of ITS
                                variable in millimetres / 1000 (exactly), None from 8000 mm on; None before
                                the first packet; packets of other blocks change nothing
     R3 StopDidNotDelete / DeleteUnexpected / UnexpectedControl   stop() sends exactly one delete for the
                                block created by start(), and nothing else is ever sent
        BlockLeftOnDevice       after stop() and all acknowledgements no block of the helper is left
     R4 EnterNotSelf / ExitSwallowedException   `with Multiranger(cf) as m`: m is the object, started; the
                                block is deleted on exit also when the body raised, and the exception
                                propagates
   reset_estimator
     E1 ResetPulseWrong / ResetPulseTooShort   kalman.resetEstimation is written 1, then 0, the second call
                                at least 100 ms after the first; nothing else is written
        LoggingBeforeReset      the variance log is created only after both calls
     E2 CreateNotAsConfigured / StartNotAsConfigured   block = kalman.varPX, varPY, varPZ as float, 500 ms
     E3 ReturnedBeforeConverged returns (link up) only after some dispatched sample at which the window of
                                the last ten samples (initially ten times 1000) had max - min < 0.001 in all
                                three axes
        HangAfterConvergence    ... and does return once such a sample was dispatched
     E4 LoggingNotStopped       before returning it stops and deletes the block
     E5 HangAfterDisconnect     it does not stay blocked when the connection goes away
        RaisedWithoutCause      it raises only if the connection went away or kalman.resetEstimation does
                                not exist
   Not demanded: any bound on how long reset_estimator waits for samples on a live link (it has none). *)
EXTENDS Naturals, Integers, Sequences, FiniteSets

U16 == 2
FLT == 7
RangerVars == [j \in 1..6 |-> <<j, U16, U16>>]
EstVars    == [j \in 1..3 |-> <<j, FLT, FLT>>]
K1000 == 65536000          \* 1000.0 in units of 1/65536
Thresh == 66               \* 0.001 * 65536 = 65.536: a difference of k units is < 0.001 iff k <= 65

Conv(v) == IF v >= 8000 THEN -1 ELSE v
\* property order front, back, left, right, up, down = variables 1..6
ConvAll(vals) == [j \in 1..6 |-> Conv(vals[j])]

Max(S) == CHOOSE x \in S : \A y \in S : y <= x
Min(S) == CHOOSE x \in S : \A y \in S : x <= y
Spread(w, a) == LET S == {w[j][a] : j \in DOMAIN w} IN Max(S) - Min(S)
Converged(w) == \A a \in 1..3 : Spread(w, a) < Thresh
Window0 == [j \in 1..10 |-> <<K1000, K1000, K1000>>]
Push(w, s) == Append(Tail(w), s)

M0(mode, rate, haskalman) ==
    [mode |-> mode, rate |-> rate, haskalman |-> haskalman, op |-> "", excbody |-> FALSE,
     bid |-> 0, created |-> FALSE, createAcked |-> FALSE, delSeen |-> FALSE, stopSeen |-> FALSE,
     exp |-> [j \in 1..6 |-> -1],
     pcalls |-> <<>>, psets |-> <<>>, window |-> Window0, conv |-> FALSE,
     lost |-> FALSE, finished |-> FALSE]

Apply(M, ev) ==
    CASE ev.e = "begin" -> [M EXCEPT !.op = ev.op, !.excbody = (ev.res = "exc"), !.delSeen = FALSE,
                                     !.created = IF ev.op \in {"start", "enter", "reset"} THEN FALSE ELSE @,
                                     !.createAcked = IF ev.op \in {"start", "enter", "reset"} THEN FALSE ELSE @]
      [] ev.e = "end"   -> [M EXCEPT !.op = "", !.finished = (ev.op \in {"stop", "exit", "reset"})]
      [] ev.e = "ctl"   ->
            IF ev.cmd = "create" THEN [M EXCEPT !.bid = ev.id, !.created = TRUE, !.createAcked = FALSE]
            ELSE IF ev.cmd = "delete" /\ ev.id = M.bid THEN [M EXCEPT !.delSeen = TRUE]
            ELSE IF ev.cmd = "stop" /\ ev.id = M.bid THEN [M EXCEPT !.stopSeen = TRUE]
            ELSE M
      [] ev.e = "ack"   -> IF ev.cmd = "create" /\ ev.id = M.bid /\ ev.st = 0
                           THEN [M EXCEPT !.createAcked = TRUE] ELSE M
      [] ev.e = "data"  ->
            IF ev.id # M.bid \/ ~M.created THEN M
            ELSE IF M.mode = "ranger" /\ Len(ev.vals) = 6 THEN [M EXCEPT !.exp = ConvAll(ev.vals)]
            ELSE IF M.mode = "estimator" /\ Len(ev.vals) = 3
                 THEN LET w == Push(M.window, ev.vals) IN
                      [M EXCEPT !.window = w, !.conv = (@ \/ Converged(w))]
            ELSE M
      [] ev.e = "pcall" -> [M EXCEPT !.pcalls = Append(@, <<ev.v, ev.t>>)]
      [] ev.e = "pset"  -> [M EXCEPT !.psets = Append(@, ev.v)]
      [] ev.e = "down"  -> [M EXCEPT !.lost = TRUE]
      [] OTHER          -> M

IsPrefix(s, t) == Len(s) <= Len(t) /\ \A j \in 1..Len(s) : s[j] = t[j]

CtlClause(M, ev) ==
    IF ev.cmd = "create" THEN
        IF M.created \/ M.op \notin {"start", "enter", "reset"} THEN "UnexpectedControl"
        ELSE IF M.mode = "ranger" /\ ev.vars # RangerVars THEN "CreateNotAsConfigured"
        ELSE IF M.mode = "estimator" /\ ev.vars # EstVars THEN "CreateNotAsConfigured"
        ELSE IF M.mode = "estimator" /\ Len(M.pcalls) # 2 THEN "LoggingBeforeReset"
        ELSE "ok"
    ELSE IF ev.cmd = "start" THEN
        IF ev.id # M.bid \/ ~M.createAcked \/ ev.per # M.rate \div 10 THEN "StartNotAsConfigured" ELSE "ok"
    ELSE IF ev.cmd = "delete" THEN
        IF ev.id # M.bid \/ M.delSeen THEN "DeleteUnexpected"
        ELSE IF M.mode = "ranger" /\ M.op \notin {"stop", "exit"} THEN "DeleteUnexpected"
        ELSE IF M.mode = "estimator" /\ M.op # "reset" THEN "DeleteUnexpected"
        ELSE "ok"
    ELSE IF ev.cmd = "stop" THEN
        IF M.mode = "estimator" /\ ev.id = M.bid /\ M.op = "reset" THEN "ok" ELSE "UnexpectedControl"
    ELSE "UnexpectedControl"

DataClause(M, ev) ==
    IF M.mode # "ranger" THEN "ok"
    ELSE LET exp == IF ev.id = M.bid /\ M.created /\ Len(ev.vals) = 6 THEN ConvAll(ev.vals) ELSE M.exp
         IN IF ev.read = exp THEN "ok" ELSE "WrongDistance"

PCallClause(M, ev) ==
    LET n == Len(M.pcalls) IN
    IF n = 0 THEN (IF ev.v = 1 THEN "ok" ELSE "ResetPulseWrong")
    ELSE IF n = 1 THEN (IF ev.v # 0 THEN "ResetPulseWrong"
                        ELSE IF ev.t - M.pcalls[1][2] < 100 THEN "ResetPulseTooShort" ELSE "ok")
    ELSE "ResetPulseWrong"

EndOpClause(M, ev) ==
    IF ev.res \notin {"", "self", "other", "propagated", "swallowed"} THEN        \* the operation raised
        IF M.lost \/ (ev.op = "reset" /\ ~M.haskalman) THEN "ok" ELSE "RaisedWithoutCause"
    ELSE IF ev.op \in {"start", "enter"} THEN
        IF ~M.created /\ ~M.lost THEN "StartDidNotCreate"
        ELSE IF ev.op = "enter" /\ ev.res # "self" THEN "EnterNotSelf"
        ELSE "ok"
    ELSE IF ev.op \in {"stop", "exit"} THEN
        IF M.created /\ ~M.delSeen /\ ~M.lost THEN "StopDidNotDelete"
        ELSE IF ev.op = "exit" /\ M.excbody /\ ev.res # "propagated" THEN "ExitSwallowedException"
        ELSE "ok"
    ELSE IF ev.op = "reset" THEN
        IF M.lost THEN "ok"
        ELSE IF ~M.conv THEN "ReturnedBeforeConverged"
        ELSE IF ~(M.stopSeen /\ M.delSeen) THEN "LoggingNotStopped"
        ELSE "ok"
    ELSE "ok"

EventClause(M, ev) ==
    CASE ev.e = "ctl"   -> CtlClause(M, ev)
      [] ev.e = "data"  -> DataClause(M, ev)
      [] ev.e = "pcall" -> PCallClause(M, ev)
      [] ev.e = "pset"  -> IF IsPrefix(Append(M.psets, ev.v), <<1, 0>>) THEN "ok" ELSE "ResetPulseWrong"
      [] ev.e = "end"   -> EndOpClause(M, ev)
      [] OTHER          -> "ok"

\* end of the execution (nothing can move any more): blocked = a helper operation has not returned;
\* devblocks = number of log blocks the device still holds
EndClause(M, blocked, devblocks) ==
    IF blocked THEN
        IF M.lost THEN "HangAfterDisconnect"
        ELSE IF M.mode = "estimator" /\ M.conv THEN "HangAfterConvergence"
        ELSE IF M.mode = "ranger" THEN "HangWithoutCause"
        ELSE "ok"
    ELSE IF M.finished /\ ~M.lost /\ devblocks > 0 THEN "BlockLeftOnDevice"
    ELSE "ok"
=============================================================================
