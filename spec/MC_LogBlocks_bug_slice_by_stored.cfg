SPECIFICATION Spec
CONSTANTS
  NC = 1
  TocC <- TocMC
  VarAlpha <- AlphaFull
  BasicAlpha <- Basic
  MaxFree = 2
  MaxBasic = 1
  MaxUniform = 1
  Periods = {100}
  Statuses = {}
  MaxOps = 2
  MaxFaults = 0
  MaxData = 1
  MaxLate = 0
  TocAlts = {}
  IdMod = 255
  Bugs = {"slice_by_stored"}
  WithSync = FALSE
INVARIANT ObsOK
INVARIANT TypeOK
CHECK_DEADLOCK FALSE
