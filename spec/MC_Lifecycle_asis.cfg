SPECIFICATION Spec
CONSTANTS
  P = 9
  NPar = 2
  ErFrom = 3
  LogStart = 3
  LogEnd = 5
  ParStart = 6
  NAtt = 2
  MaxFaults = 1
  FaultBy = {"sender", "driver"}
  MaxPings = 2
  UseSync = FALSE
  Closer = FALSE
  Defects = {"closeReread", "dispReread", "dispStalePk", "errInSender", "errReread", "errStateRace", "openReread", "pingSelfJoin", "stopJoins", "sendNoFinally", "staleFetcher", "syncOpenNoWake", "updDoubleRelease"}
INVARIANT HistoryOK
CHECK_DEADLOCK FALSE
