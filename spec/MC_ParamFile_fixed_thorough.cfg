SPECIFICATION FairSpec
CONSTANTS
  NP = 2
  Vals <- ValsQuick
  NoValue = TRUE
  Natures <- NaturesAll
  Statuses <- StatusesQuick
  MaxFile = 2
  NCalls = 2
  Resend = TRUE
  MaxDrop = 1
  MaxDup = 1
  MaxEarly = 0
  LinkLoss = TRUE
  WaitMode = "wake"
  Bug = "none"
VIEW view
CHECK_DEADLOCK FALSE
INVARIANT TypeOK
INVARIANT PropsOK
INVARIANT StoredOnTrue
INVARIANT NoHang
PROPERTY Termination
