SPECIFICATION Spec
CONSTANTS
  Kinds = {"udp"}
  CbModes = {TRUE, FALSE}
  SlModes = {TRUE}
  Bug = "noDrop"
  Faults = {"none", "f1", "f2"}
  MaxOps = 5
  MaxSess = 2
  MaxReq = 2
  MaxIdle = 2
  MaxErr = 2
  HsMax = 2
  Retries = 2
  JamLen = 3
  KeepHistory = TRUE
INVARIANT HistoryOK
VIEW NoHistory
CHECK_DEADLOCK FALSE
