------------------------------ MODULE Flight ------------------------------
(* Design spec of cflib.positioning.MotionCommander + _SetPointThread (Helper = "MC") and
   cflib.positioning.PositionHlCommander (Helper = "PHC")  --  property C17.

   Units: time ms, lengths mm (heights of the setpoint stream um = mm/s * ms), velocities mm/s,
   angles deg, rates deg/s.  Programs are restricted to values for which every duration is a whole
   number of ms (circles: 2 pi r a/(360 v) is irrational; the sleeper may take floor or floor+1 ms,
   which is exactly what rounding two real time stamps to ms can show).

   Threads.  `cmd` is the user's thread running the helper's methods; `sp` is _SetPointThread.
   Scheduling model = vsched without time-while-runnable: a step is the firing of one pending
   operation of a thread (queue put/get, sleep wake-up, thread start, join) followed by that
   thread's code up to its next operation; virtual time advances (Tick) only when no thread can
   fire, to the earliest deadline.  cmd's code between two of its operations sees the state as of
   its last firing: `hread` is that snapshot of the stream's height (used by land()).
   cmd executes micro-operations `todo`; the user's body is the environment: Choose(p) picks the
   next primitive, ChooseEnd leaves the context / calls land().

   Bug = "none" is the intended behaviour.  Named deviations (each refuted by a _bug cfg):
     "landdiv0"     MotionCommander.land at height exactly 0, and any zero-length move, divides by zero (code as found)
     "neglandsleep" PositionHlCommander.land below the landing height sleeps a negative time (as found)
     "noterm"       land does not stop the setpoint thread
     "swapfinal"    notify sent before stop
     "nointegrate"  resent setpoints keep the old height
     "norecord"     PositionHlCommander forgets to record the new position
     "skipdup"      the setpoint thread takes a command equal to the one in force for "nothing to do":
                    no setpoint is sent for it and the period wait starts afresh
     "turnmod"      turn_left/turn_right reduce the requested angle modulo 360 degrees

     "kbdfast"      MotionCommander.__exit__ on KeyboardInterrupt (raise a = 1) sends stop + release itself and
                    leaves the setpoint thread running
     "negtimeout"   the setpoint thread subtracts the time the last send took from its wait and dies when a send
                    took longer than the period
     "takeoffadd"   PositionHlCommander.take_off adds the height to the recorded z instead of setting it

   "raise" a = kind of exception leaving the body (0 an Exception subclass, 1 KeyboardInterrupt, 2 SystemExit,
   3 GeneratorExit, 4 another direct BaseException subclass): the helpers must treat them alike.
   Link latency: a hover setpoint handed to the commander may block the setpoint thread for L ms (L from Lats, at
   most MaxLat times per behaviour; sp = "sending" meanwhile).  `lastT` is the time the last send *returned* (or
   the thread started): the thread must not wait longer than one period before it sends again.  A command issued
   while the thread is kept by the link is in force from the moment the thread takes it from its queue (`tvels`;
   without latency that is the instant it was issued): the stream's velocities and height follow `tvels`.
   PositionHlCommander: start position (X0, Y0, Z0); "land" (c = landing height, w = 1: default, v = velocity) and
   "takeoff" (c = height, w = 1: default, v) as primitives: several flights on one object.

   The body may also let time pass between two primitives ("wait" a = ms: the user's own
   time.sleep, as every program using start_*/stop does); the stream must not depend on it.        *)
EXTENDS Integers, Sequences, FiniteSets, TLC

CONSTANTS Helper, Mode,      \* "MC" | "PHC" ; "with" | "explicit"
          Prims, MaxLen,     \* primitives the body may use, bound on the program length
          DH, DV, DL,        \* default height (mm), PHC default velocity (mm/s), PHC landing height (mm)
          Period,            \* _SetPointThread.UPDATE_PERIOD (ms)
          X0, Y0, Z0,        \* PHC start position (mm)
          Lats, MaxLat,      \* link latencies a hover send may take (ms), how many sends may be slow
          Bug

P == INSTANCE FlightProps

VARIABLES now,
          cst, wake, todo, flying, outcome,   \* cmd: state, sleep deadline, micro-ops, _is_flying, how it ended
          prog, cur,                          \* history: primitives chosen so far; blocking primitive in progress
          hread,                              \* cmd's snapshot of hs.z at its last firing
          q, sp, deadline, hs, zbase, zvel, zt0,   \* _SetPointThread
          nlat,                               \* sends that took time so far
          tvels,                              \* history: the velocity commands as the setpoint thread took them from its queue
          pos,                                \* PHC: [x,y,z,dv,dh,dl] as the object holds them
          est,                                \* PHC history: the same record as the *program* determines it
          calls, vels, lastT, viol            \* history: commander calls, velocity commands, last setpoint time, first failing clause

vars == <<now, cst, wake, todo, flying, outcome, prog, cur, hread, q, sp, deadline, hs, zbase, zvel, zt0, nlat, tvels,
          pos, est, calls, vels, lastT, viol>>
spvars == <<q, sp, deadline, hs, zbase, zvel, zt0, nlat, tvels>>

MCV == 200        \* MotionCommander.VELOCITY
MCR == 72         \* MotionCommander.RATE
Abs(x) == IF x < 0 THEN -x ELSE x
Sgn(x) == IF x < 0 THEN -1 ELSE IF x > 0 THEN 1 ELSE 0

NoVel == [vx |-> 0, vy |-> 0, vz |-> 0, w |-> 0, cr |-> 0, cv |-> 0]
TERM == [NoVel EXCEPT !.cr = -1]         \* _SetPointThread.TERMINATE_EVENT
Lin(x, y, z) == [NoVel EXCEPT !.vx = x, !.vy = y, !.vz = z]
Op(k, n, v) == [k |-> k, n |-> n, v |-> v]
NoPrim == [op |-> "none", a |-> 0, b |-> 0, c |-> 0, v |-> 0, w |-> 0]
NoCur == [p |-> NoPrim, c |-> 0, dur |-> P!Whole(0), durUs |-> 0, ph |-> 0]

\* ---- observable forms (what FlightProps talks about)
YawQ(v) == IF v.cr = 0 THEN P!Whole(v.w) ELSE P!Q(180 * v.cv, v.cr, -1)
VelObs(v, t) == [t |-> t * 1000, vx |-> P!Milli(v.vx), vy |-> P!Milli(v.vy), vz |-> P!Milli(v.vz), yaw |-> YawQ(v)]
HovObs(h, t) == [t |-> t * 1000, vx |-> P!Milli(h.v.vx), vy |-> P!Milli(h.v.vy), yaw |-> YawQ(h.v), z |-> h.z]
Fail(c) == IF viol = "ok" /\ c # "ok" THEN c ELSE viol

\* ---- durations
CircMs(p) == (p.c * p.b * 17750) \div (1017 * p.v)         \* floor(2 (355/113) r a 1000/(360 v))
MoveVel(p) == IF p.v = 0 THEN (IF Helper = "MC" THEN MCV ELSE pos.dv) ELSE p.v

Init == /\ now = 0
        /\ cst = "run" /\ wake = 0 /\ flying = FALSE /\ outcome = "none"
        /\ todo = IF Helper = "MC"
                  THEN <<Op("param", 1, NoVel), Op("sleep", 100, NoVel), Op("param", 0, NoVel),
                         Op("sleep", 2000, NoVel), Op("spstart", 0, NoVel),
                         Op("vel", 0, Lin(0, 0, MCV)), Op("sleep", (DH * 1000) \div MCV, NoVel),
                         Op("vel", 0, NoVel), Op("body", 0, NoVel)>>
                  ELSE <<Op("sleep", 1000, NoVel), Op("hltakeoff", (DH * 1000) \div DV, NoVel),
                         Op("sleep", (DH * 1000) \div DV, [Lin(0, 0, DH) EXCEPT !.w = 2]), Op("body", 0, NoVel)>>
        /\ prog = <<>> /\ cur = NoCur /\ hread = 0
        /\ q = <<>> /\ sp = "none" /\ deadline = 0 /\ nlat = 0 /\ tvels = <<>>
        /\ hs = [v |-> NoVel, z |-> 0] /\ zbase = 0 /\ zvel = 0 /\ zt0 = 0
        /\ pos = [x |-> X0, y |-> Y0, z |-> Z0, dv |-> DV, dh |-> DH, dl |-> DL]
        /\ est = pos
        /\ calls = <<>> /\ vels = <<>> /\ lastT = 0 /\ viol = "ok"

Ready == cst = "run" /\ todo # <<>>
H == Head(todo)
Rest == Tail(todo)
CurZ == IF Bug = "nointegrate" THEN hs.z ELSE zbase + zvel * (now - zt0)

\* ------------------------------------------------------------------ cmd: micro-operations
CmdParam == /\ Ready /\ H.k = "param"
            /\ todo' = Rest /\ flying' = TRUE
            /\ UNCHANGED <<now, cst, wake, outcome, prog, cur, hread, spvars, pos, est, calls, vels, lastT, viol>>

\* time.sleep(ms): ms is the head's n; circles may take one ms more (see module comment)
CmdSleep(ms) ==
    /\ Ready /\ H.k = "sleep"
    /\ IF cur.p.op = "circle" /\ cur.ph = 1 THEN ms \in {H.n, H.n + 1} ELSE ms = H.n
    /\ IF ms < 0
       THEN /\ Bug = "neglandsleep"            \* ValueError: the thread dies inside land()
            /\ cst' = "crashed" /\ outcome' = "other" /\ UNCHANGED <<wake, cur>>
       ELSE /\ cst' = "sleep" /\ wake' = now + ms /\ UNCHANGED outcome
            /\ cur' = IF cur.ph = 1 THEN [cur EXCEPT !.durUs = ms * 1000, !.ph = 2] ELSE cur
    /\ UNCHANGED <<now, todo, flying, prog, hread, spvars, pos, est, calls, vels, lastT, viol>>

\* the sleep's deadline fires; a PHC sleep that ends a motion records the new position
CmdWake == /\ cst = "sleep" /\ now >= wake
           /\ cst' = "run" /\ todo' = Rest /\ hread' = hs.z
           /\ pos' = CASE Helper = "PHC" /\ H.v.w = 1 /\ Bug # "norecord" -> [pos EXCEPT !.x = H.v.vx, !.y = H.v.vy, !.z = H.v.vz]
                       [] Helper = "PHC" /\ H.v.w \in {2, 4} /\ Bug = "takeoffadd" -> [pos EXCEPT !.z = pos.z + H.v.vz]
                       [] Helper = "PHC" /\ H.v.w \in {2, 3, 4, 5} -> [pos EXCEPT !.z = H.v.vz]
                       [] OTHER -> pos
           /\ est' = CASE Helper = "PHC" /\ H.v.w = 1 -> P!NextSt(prog[Len(prog)], est)
                       [] Helper = "PHC" /\ H.v.w = 2 -> [est EXCEPT !.z = est.dh]
                       [] Helper = "PHC" /\ H.v.w = 3 -> [est EXCEPT !.z = est.dl]
                       [] Helper = "PHC" /\ H.v.w \in {4, 5} -> P!NextSt(prog[Len(prog)], est)
                       [] OTHER -> est
           /\ UNCHANGED <<now, wake, flying, outcome, prog, cur, spvars, calls, vels, lastT, viol>>

CmdSpStart == /\ Ready /\ H.k = "spstart"
              /\ todo' = Rest /\ sp' = "waiting" /\ deadline' = now + Period /\ lastT' = now * 1000
              /\ hread' = hs.z
              /\ UNCHANGED <<now, cst, wake, flying, outcome, prog, cur, q, hs, zbase, zvel, zt0, nlat, tvels, pos, est, calls, vels, viol>>

\* queue.put of a velocity setpoint (the linearisation point of set_vel_setpoint)
CmdPut == /\ Ready /\ H.k = "vel"
          /\ todo' = Rest /\ q' = Append(q, H.v) /\ hread' = hs.z
          /\ LET c == VelObs(H.v, now) IN
             /\ vels' = Append(vels, c)
             /\ IF cur.ph = 0 /\ P!Blocking(cur.p)
                THEN cur' = [cur EXCEPT !.c = Len(vels) + 1, !.ph = 1] /\ viol' = viol
                ELSE IF cur.ph = 2
                THEN /\ viol' = Fail(P!PrimClause(cur.p, vels[cur.c], cur.dur, cur.durUs, c))
                     /\ cur' = NoCur
                ELSE UNCHANGED <<cur, viol>>
          /\ UNCHANGED <<now, cst, wake, flying, outcome, prog, sp, deadline, hs, zbase, zvel, zt0, nlat, tvels, pos, est, calls, lastT>>

CmdTerm == /\ Ready /\ H.k = "term"
           /\ todo' = Rest /\ q' = Append(q, TERM) /\ hread' = hs.z
           /\ UNCHANGED <<now, cst, wake, flying, outcome, prog, cur, sp, deadline, hs, zbase, zvel, zt0, nlat, tvels, pos, est, calls, vels, lastT, viol>>
CmdJoin == /\ Ready /\ H.k = "join" /\ sp \in {"done", "dead"}
           /\ todo' = Rest
           /\ UNCHANGED <<now, cst, wake, flying, outcome, prog, cur, hread, spvars, pos, est, calls, vels, lastT, viol>>

\* the calls of the flight in progress: a take-off primitive after a landing starts a new one
NewFlights == {i \in DOMAIN calls : i > 1 /\ calls[i] = "takeoff" /\ calls[i - 1] = "stop"}
FlightBase == IF NewFlights = {} THEN 0 ELSE (CHOOSE i \in NewFlights : \A j \in NewFlights : j <= i) - 1
FlightCalls(c) == IF c = "takeoff" /\ calls # <<>> /\ calls[Len(calls)] = "stop" /\ prog # <<>> /\ prog[Len(prog)].op = "takeoff"
                  THEN <<>> ELSE SubSeq(calls, FlightBase + 1, Len(calls))
\* a commander / high-level commander call that is not a setpoint of the stream
Call(c) == /\ viol' = Fail(IF ~P!AfterStopOK(Helper, FlightCalls(c), c) THEN "StreamAfterStop"
                           ELSE IF Helper = "MC" /\ c = "stop" /\ ~P!HoverGap(now * 1000, lastT, Period * 1000, 1000)
                           THEN "HoverGap" ELSE "ok")
           /\ calls' = Append(calls, c)
CmdCall == /\ Ready /\ H.k \in {"stop", "notify", "hltakeoff", "hlland", "hlstop"}
           /\ todo' = Rest
           /\ Call(CASE H.k = "hltakeoff" -> "takeoff" [] H.k = "hlland" -> "land" [] H.k = "hlstop" -> "stop" [] OTHER -> H.k)
           /\ flying' = CASE H.k = "hltakeoff" -> TRUE
                          [] H.k = "hlstop" \/ H.k = (IF Bug = "swapfinal" THEN "stop" ELSE "notify") -> FALSE
                          [] OTHER -> flying
           /\ UNCHANGED <<now, cst, wake, outcome, prog, cur, hread, spvars, pos, est, vels, lastT>>

\* PositionHlCommander.go_to sends the high-level go_to: H.v carries the target, H.n the duration (ms)
CmdGoTo == /\ Ready /\ H.k = "hlgoto"
           /\ todo' = Rest
           /\ LET p == prog[Len(prog)]
                  g == [x |-> P!Milli(H.v.vx), y |-> P!Milli(H.v.vy), z |-> P!Milli(H.v.vz), dur |-> P!Milli(H.n)]
              IN viol' = Fail(IF ~P!AfterStopOK(Helper, FlightCalls("goto"), "goto") THEN "StreamAfterStop"
                              ELSE P!GoToClause(g, p, est))
           /\ calls' = Append(calls, "goto")
           /\ UNCHANGED <<now, cst, wake, flying, outcome, prog, cur, hread, spvars, pos, est, vels, lastT>>

\* ------------------------------------------------------------------ the user's body (environment)
MoveOps(p) ==       \* MotionCommander.move_distance
    LET d == P!Dist(p.a, p.b, p.c) v == MoveVel(p) IN
    <<Op("vel", 0, Lin((v * p.a) \div d, (v * p.b) \div d, (v * p.c) \div d)),
      Op("sleep", (d * 1000) \div v, NoVel), Op("vel", 0, NoVel)>>
TurnAngle(p) == IF Bug = "turnmod" THEN p.b % 360 ELSE p.b
TurnOps(p) == LET r == IF p.v = 0 THEN MCR ELSE p.v IN
    <<Op("vel", 0, [NoVel EXCEPT !.w = p.a * r]), Op("sleep", (TurnAngle(p) * 1000) \div r, NoVel), Op("vel", 0, NoVel)>>
CircVel(p) == [NoVel EXCEPT !.vx = MoveVel(p), !.cr = p.c, !.cv = p.a * MoveVel(p)]
CircOps(p) == <<Op("vel", 0, CircVel(p)), Op("sleep", CircMs([p EXCEPT !.v = MoveVel(p)]), NoVel), Op("vel", 0, NoVel)>>
GoOps(p) ==         \* PositionHlCommander.go_to (move_distance computes the target first)
    LET T == P!Target(p, pos)
        d == P!Dist(T.x - pos.x, T.y - pos.y, T.z - pos.z)
        ms == (d * 1000) \div MoveVel(p)
    IN  IF d = 0 THEN <<>>
        ELSE <<Op("hlgoto", ms, Lin(T.x, T.y, T.z)), Op("sleep", ms, [Lin(T.x, T.y, T.z) EXCEPT !.w = 1])>>
\* the stated restriction on programs: rational length, whole milliseconds
RationalGo(p) == LET T == P!Target(p, pos)
                     dd == (T.x - pos.x) * (T.x - pos.x) + (T.y - pos.y) * (T.y - pos.y) + (T.z - pos.z) * (T.z - pos.z)
                     d == P!Dist(T.x - pos.x, T.y - pos.y, T.z - pos.z)
                 IN  d * d = dd /\ (d * 1000) % MoveVel(p) = 0
DurQ(p) == CASE p.op = "move" -> P!Q(P!Dist(p.a, p.b, p.c), MoveVel(p), 0)
             [] p.op = "turn" -> P!Q(TurnAngle(p), IF p.v = 0 THEN MCR ELSE p.v, 0)
             [] p.op = "circle" -> P!Q(2 * p.c * p.b, 360 * MoveVel(p), 1)
             [] OTHER -> P!Whole(0)

TakeoffH(p) == IF p.w = 1 THEN pos.dh ELSE p.c
LandH(p) == IF p.w = 1 THEN pos.dl ELSE p.c
\* the exit path: __exit__ -> land(), or an explicit land()
LandOps ==
    IF ~flying THEN <<Op("end", 0, NoVel)>>
    ELSE IF Helper = "MC"
    THEN LET h == hread
             fin == (IF Bug = "noterm" THEN <<>> ELSE <<Op("term", 0, NoVel), Op("join", 0, NoVel)>>)
                    \o (IF Bug = "swapfinal" THEN <<Op("notify", 0, NoVel), Op("stop", 0, NoVel)>>
                        ELSE <<Op("stop", 0, NoVel), Op("notify", 0, NoVel)>>) \o <<Op("end", 0, NoVel)>>
         IN  IF h = 0 THEN (IF Bug = "landdiv0" THEN <<Op("crash", 0, NoVel)>> ELSE fin)
             ELSE <<Op("vel", 0, Lin(0, 0, -Sgn(h) * MCV)), Op("sleep", Abs(h) \div MCV, NoVel), Op("vel", 0, NoVel)>> \o fin
    ELSE LET d == pos.z - pos.dl
             ms == IF Bug = "neglandsleep" THEN (IF d >= 0 THEN (d * 1000) \div pos.dv ELSE -((-d * 1000) \div pos.dv))
                   ELSE (Abs(d) * 1000) \div pos.dv
         IN  <<Op("hlland", ms, NoVel), Op("sleep", ms, [Lin(0, 0, pos.dl) EXCEPT !.w = 3]), Op("hlstop", 0, NoVel), Op("end", 0, NoVel)>>

Choose(p) ==
    /\ Ready /\ H.k = "body" /\ Len(prog) < MaxLen
    /\ p.op = "raise" => Mode = "with"
    /\ Helper = "PHC" /\ p.op \in {"move", "goto"} => RationalGo(p)
    /\ Helper = "PHC" /\ p.op \in {"move", "goto", "land"} => flying        \* (programs are generated that way)
    /\ p.op \in {"land", "takeoff"} => Helper = "PHC"
    /\ p.op = "takeoff" => ~flying /\ (TakeoffH(p) * 1000) % MoveVel(p) = 0
    /\ p.op = "land" => (Abs(pos.z - LandH(p)) * 1000) % MoveVel(p) = 0
    /\ prog' = Append(prog, p)
    /\ LET nomove == p.op = "move" /\ Helper = "MC" /\ P!Dist(p.a, p.b, p.c) = 0   \* zero-length move: nothing to do
           zero == nomove /\ Bug = "landdiv0"                                      \* (as found: ZeroDivisionError in the primitive)
           ops == CASE p.op = "move" /\ Helper = "MC" -> IF nomove THEN <<>> ELSE MoveOps(p)
                    [] p.op = "turn" -> TurnOps(p)
                    [] p.op = "circle" -> CircOps(p)
                    [] p.op = "start" -> <<Op("vel", 0, [Lin(p.a, p.b, p.c) EXCEPT !.w = p.w])>>
                    [] p.op = "startcircle" -> <<Op("vel", 0, CircVel(p))>>
                    [] p.op = "stop" -> <<Op("vel", 0, NoVel)>>
                    [] p.op = "wait" -> <<Op("sleep", p.a, NoVel)>>
                    [] p.op \in {"move", "goto"} /\ Helper = "PHC" -> GoOps(p)
                    [] p.op = "takeoff" -> LET ms == (TakeoffH(p) * 1000) \div MoveVel(p) IN
                          <<Op("hltakeoff", ms, NoVel), Op("sleep", ms, [Lin(0, 0, TakeoffH(p)) EXCEPT !.w = 4])>>
                    [] p.op = "land" -> LET ms == (Abs(pos.z - LandH(p)) * 1000) \div MoveVel(p) IN
                          <<Op("hlland", ms, NoVel), Op("sleep", ms, [Lin(0, 0, LandH(p)) EXCEPT !.w = 5]), Op("hlstop", 0, NoVel)>>
                    [] OTHER -> <<>>
       IN IF p.op = "raise" \/ zero
          THEN /\ todo' = (IF Bug = "kbdfast" /\ Helper = "MC" /\ p.op = "raise" /\ p.a = 1 /\ flying
                           THEN <<Op("stop", 0, NoVel), Op("notify", 0, NoVel), Op("end", 0, NoVel)>> ELSE LandOps)
               /\ outcome' = (IF zero THEN "primexc" ELSE "scripted") /\ cur' = NoCur
               /\ UNCHANGED <<pos, est>>
          ELSE /\ todo' = ops \o todo /\ UNCHANGED outcome
               /\ cur' = IF Helper = "MC" /\ P!Blocking(p) /\ ~nomove
                         THEN [p |-> p, c |-> 0, dur |-> DurQ(p), durUs |-> 0, ph |-> 0] ELSE NoCur
               /\ IF Helper = "PHC" /\ p.op \in {"setv", "seth", "setl"}
                  THEN pos' = P!NextSt(p, pos) /\ est' = P!NextSt(p, est)
                  ELSE UNCHANGED <<pos, est>>
    /\ UNCHANGED <<now, cst, wake, flying, hread, spvars, calls, vels, lastT, viol>>

ChooseEnd == /\ Ready /\ H.k = "body"
             /\ todo' = LandOps
             /\ UNCHANGED <<now, cst, wake, flying, outcome, prog, cur, hread, spvars, pos, est, calls, vels, lastT, viol>>

CmdEnd == /\ Ready /\ H.k \in {"end", "crash"}
          /\ cst' = IF H.k = "end" THEN "done" ELSE "crashed"
          /\ outcome' = IF H.k = "crash" THEN "other"
                        ELSE IF outcome \in {"scripted", "primexc"} THEN "scripted" ELSE "ok"
          /\ todo' = <<>>
          /\ UNCHANGED <<now, wake, flying, prog, cur, hread, spvars, pos, est, calls, vels, lastT, viol>>

\* ------------------------------------------------------------------ _SetPointThread.run
\* send_hover_setpoint; the link keeps the thread for L ms (0: returns at once)
LatChoices == IF nlat < MaxLat THEN Lats \cup {0} ELSE {0}
Send(h, L, tv) ==
    /\ viol' = Fail(IF ~P!AfterStopOK(Helper, calls, "hover") THEN "StreamAfterStop"
                    ELSE P!HoverClause(HovObs(h, now), tv, lastT, Period * 1000, 1000))
    /\ calls' = Append(calls, "hover") /\ lastT' = now * 1000
    /\ L \in LatChoices /\ nlat' = IF L > 0 THEN nlat + 1 ELSE nlat
    /\ IF L = 0 THEN sp' = "waiting" /\ deadline' = now + Period
                ELSE sp' = "sending" /\ deadline' = now + L
SpGet(L) == /\ sp = "waiting" /\ q # <<>>
            /\ q' = Tail(q)
            /\ IF Head(q) = TERM
               THEN L = 0 /\ sp' = "done" /\ UNCHANGED <<deadline, hs, zbase, zvel, zt0, nlat, tvels, calls, lastT, viol>>
               ELSE IF Bug = "skipdup" /\ calls # <<>> /\ Head(q) = hs.v
               THEN L = 0 /\ deadline' = now + Period /\ UNCHANGED <<sp, hs, zbase, zvel, zt0, nlat, tvels, calls, lastT, viol>>
               ELSE LET z == CurZ h == [v |-> Head(q), z |-> z] IN
                    /\ zbase' = z /\ zvel' = Head(q).vz /\ zt0' = now /\ hs' = h
                    /\ tvels' = Append(tvels, VelObs(Head(q), now))
                    /\ Send(h, L, Append(tvels, VelObs(Head(q), now)))
            /\ UNCHANGED <<now, cst, wake, todo, flying, outcome, prog, cur, hread, pos, est, vels>>
SpTimeout(L) == /\ sp = "waiting" /\ q = <<>> /\ now >= deadline
                /\ LET h == [hs EXCEPT !.z = CurZ] IN hs' = h /\ Send(h, L, tvels)
                /\ UNCHANGED <<now, cst, wake, todo, flying, outcome, prog, cur, hread, q, zbase, zvel, zt0, tvels, pos, est, vels>>
\* the send returns: from now on the thread waits for the next event, one period at most
SpSent == /\ sp = "sending" /\ now >= deadline
          /\ IF Bug = "negtimeout" /\ now * 1000 - lastT > Period * 1000
             THEN sp' = "dead" /\ UNCHANGED deadline          \* Queue.get(timeout < 0): ValueError, uncaught
             ELSE sp' = "waiting" /\ deadline' = now + Period
          /\ lastT' = now * 1000
          /\ UNCHANGED <<now, cst, wake, todo, flying, outcome, prog, cur, hread, q, hs, zbase, zvel, zt0, nlat, tvels, pos, est, calls, vels, viol>>

\* ------------------------------------------------------------------ time
CmdCanFire == (cst = "run" /\ todo # <<>> /\ (H.k = "join" => sp \in {"done", "dead"})) \/ (cst = "sleep" /\ now >= wake)
SpCanFire == (sp = "waiting" /\ (q # <<>> \/ now >= deadline)) \/ (sp = "sending" /\ now >= deadline)
Deadlines == (IF cst = "sleep" THEN {wake} ELSE {}) \cup (IF sp \in {"waiting", "sending"} THEN {deadline} ELSE {})
Tick == /\ ~CmdCanFire /\ ~SpCanFire /\ cst \notin {"done", "crashed"} /\ Deadlines # {}
        /\ now' = CHOOSE d \in Deadlines : \A e \in Deadlines : d <= e
        /\ UNCHANGED <<cst, wake, todo, flying, outcome, prog, cur, hread, spvars, pos, est, calls, vels, lastT, viol>>

SleepChoices == IF Ready /\ H.k = "sleep" THEN {H.n, H.n + 1} ELSE {}
Next == CmdParam \/ (\E ms \in SleepChoices : CmdSleep(ms)) \/ CmdWake \/ CmdSpStart \/ CmdPut \/ CmdTerm \/ CmdJoin
        \/ CmdCall \/ CmdGoTo \/ (\E p \in Prims : Choose(p)) \/ ChooseEnd \/ CmdEnd
        \/ (\E L \in Lats \cup {0} : SpGet(L) \/ SpTimeout(L)) \/ SpSent \/ Tick
Spec == Init /\ [][Next]_vars

\* ---- properties (C17)
NoViolation == viol = "ok"
\* when the user's thread is through (or dead), the stream ended on the ground command; the
\* streaming thread is not left running (it would stream after the stop)
Ended == cst \in {"done", "crashed"} => P!EndsWithStop(Helper, calls, outcome) /\ sp \in {"none", "done", "dead"}
PosTracks == Helper = "PHC" /\ Ready /\ H.k \in {"body", "end"} =>
                P!PosOK([x |-> P!Milli(pos.x), y |-> P!Milli(pos.y), z |-> P!Milli(pos.z)], est)
TypeOK == cst \in {"run", "sleep", "done", "crashed"} /\ sp \in {"none", "waiting", "sending", "done", "dead"}
=============================================================================
