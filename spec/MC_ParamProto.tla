---- MODULE MC_ParamProto ----
EXTENDS ParamProto
I(n) == [k |-> "int", neg |-> FALSE, mag |-> <<n % 256, n \div 256>>]
N(n) == [k |-> "int", neg |-> TRUE, mag |-> <<n % 256, n \div 256>>]
NoV == [k |-> "none"]
Op(k, p, v) == [k |-> k, p |-> p, v |-> v]
CB(id, scope, ref) == [id |-> id, scope |-> scope, ref |-> ref, script |-> <<"nop", 0>>, reg0 |-> TRUE]
CBS(id, scope, ref, kind, target, reg0) == [id |-> id, scope |-> scope, ref |-> ref, script |-> <<kind, target>>, reg0 |-> reg0]

\* ---- protocol configurations: p1, p2 persistent uint8 in group 1, p3 read-only uint16 in group 2
CfgA == [np |-> 3,
         type |-> <<8, 8, 9>>, ro |-> <<FALSE, FALSE, TRUE>>, pers |-> <<TRUE, TRUE, FALSE>>,
         group |-> <<1, 1, 2>>, init |-> <<<<6>>, <<7>>, <<1, 0>>>>,
         updcbs |-> <<CB(1, "param", 1), CB(2, "group", 1),
                      CB(3, "all", 0)>>,
         default |-> <<<<5>>, <<9>>, <<1, 0>>>>, stored0 |-> <<<<>>, <<>>, <<>>>>]
NotifsA == {[p |-> 1, v |-> <<3>>]}

OpsQuick == {Op("set", 1, I(9)), Op("set", 1, I(256)), Op("getstate", 1, NoV), Op("getstate", 2, NoV)}
OpsMore == {Op("set", 3, I(1)), Op("read", 2, NoV), Op("set", 0, I(1)), Op("store", 1, NoV), Op("get", 1, NoV)}
\* without two outstanding queries of the same command (what the code as it is cannot serve)
OpsAsIs  == OpsQuick \cup {Op("set", 3, I(1)), Op("read", 2, NoV), Op("set", 0, I(1)), Op("get", 1, NoV), Op("getdefault", 2, NoV)}
OpsThorough == OpsQuick \cup OpsMore \cup {Op("set", 2, I(4)), Op("read", 1, NoV), Op("getstate", 2, NoV), Op("clear", 1, NoV),
                              Op("getdefault", 2, NoV), Op("getdefault", 1, NoV), Op("set", 1, N(1))}
OpsT3 == OpsQuick \cup {Op("read", 2, NoV), Op("store", 1, NoV)}
OpsDup == {Op("set", 1, I(9)), Op("read", 2, NoV), Op("read", 1, NoV), Op("getstate", 1, NoV), Op("store", 2, NoV), Op("getdefault", 2, NoV)}
OpsShots == {Op("getstate", 1, NoV), Op("getstate", 2, NoV), Op("store", 1, NoV), Op("getdefault", 2, NoV),
             Op("getdefault", 1, NoV)}
OpsShots4 == {Op("getstate", 1, NoV), Op("getstate", 2, NoV), Op("store", 1, NoV), Op("set", 1, I(9))}

\* ---- update callbacks that change the registrations while an update is dispatched: on parameter 1 a one-shot
\* (1, removes itself), a plain one (2), one that removes the group callback (3 -> 5), one that adds 6;
\* group callback 5; all-callback 7 removes 2; 6 is added by 3... (not registered at the start)
CfgC == [CfgA EXCEPT !.updcbs = <<CBS(1, "param", 1, "removeSelf", 0, TRUE), CBS(2, "param", 1, "nop", 0, TRUE),
                                   CBS(3, "param", 1, "add", 6, TRUE), CBS(4, "param", 1, "remove", 5, TRUE),
                                   CBS(5, "group", 1, "nop", 0, TRUE), CBS(6, "group", 1, "removeSelf", 0, FALSE),
                                   CBS(7, "all", 0, "remove", 2, TRUE), CBS(8, "all", 0, "nop", 0, TRUE)>>]
OpsCbs == {Op("set", 1, I(9)), Op("read", 1, NoV), Op("read", 2, NoV)}

\* ---- simulation: int16 / uint8 x2 / float / read-only uint16, more operations
F(b) == [k |-> "f64", b |-> b]
CfgS == [np |-> 5,
         type |-> <<8, 8, 1, 6, 9>>, ro |-> <<FALSE, FALSE, FALSE, FALSE, TRUE>>,
         pers |-> <<TRUE, TRUE, TRUE, FALSE, FALSE>>, group |-> <<1, 1, 2, 2, 2>>,
         init |-> <<<<6>>, <<7>>, <<254, 255>>, <<0, 0, 192, 63>>, <<1, 0>>>>,
         updcbs |-> <<CB(1, "param", 1), CB(2, "group", 1),
                      CB(3, "all", 0), CB(4, "param", 3),
                      CBS(5, "param", 1, "removeSelf", 0, TRUE), CBS(6, "param", 1, "nop", 0, TRUE),
                      CBS(7, "group", 2, "add", 8, TRUE), CBS(8, "all", 0, "remove", 4, FALSE)>>,
         default |-> <<<<5>>, <<2>>, <<1, 0>>, <<0, 0, 128, 63>>, <<1, 0>>>>,
         stored0 |-> <<<<>>, <<8>>, <<>>, <<>>, <<>>>>]
NotifsS == {[p |-> 1, v |-> <<3>>], [p |-> 3, v |-> <<0, 128>>], [p |-> 5, v |-> <<9, 9>>]}
OpsSim == {Op("set", 1, I(9)), Op("set", 1, I(256)), Op("set", 1, N(1)), Op("set", 2, I(255)), Op("set", 3, N(32768)),
           Op("set", 3, I(32768)), Op("set", 4, F(<<0, 0, 0, 0, 0, 0, 4, 64>>)), Op("set", 4, F(<<227, 4, 44, 86, 163, 130, 7, 72>>)),
           Op("set", 5, I(1)), Op("set", 0, I(1)),
           Op("read", 1, NoV), Op("read", 3, NoV), Op("read", 5, NoV), Op("get", 1, NoV), Op("get", 3, NoV),
           Op("getstate", 1, NoV), Op("getstate", 2, NoV), Op("getstate", 3, NoV), Op("getstate", 4, NoV),
           Op("store", 1, NoV), Op("store", 2, NoV), Op("clear", 2, NoV), Op("clear", 1, NoV),
           Op("getdefault", 1, NoV), Op("getdefault", 2, NoV), Op("getdefault", 4, NoV), Op("getdefault", 5, NoV)}

\* ---- codec configuration: one parameter per firmware type, every boundary class
Zero(p) == [i \in 1..P!Width(<<8, 9, 10, 11, 0, 1, 2, 3, 6, 7>>[p]) |-> 0]
CfgT == [np |-> 10,
         type |-> <<8, 9, 10, 11, 0, 1, 2, 3, 6, 7>>,
         ro |-> [p \in 1..10 |-> FALSE], pers |-> [p \in 1..10 |-> FALSE], group |-> [p \in 1..10 |-> 1],
         init |-> [p \in 1..10 |-> Zero(p)],
         updcbs |-> <<CB(1, "all", 0)>>,
         default |-> [p \in 1..10 |-> Zero(p)], stored0 |-> [p \in 1..10 |-> <<>>]]
Pow(w) == [i \in 1..(w + 1) |-> IF i = w + 1 THEN 1 ELSE 0]            \* 2^(8w)
Max(w) == [i \in 1..w |-> 255]                                         \* 2^(8w) - 1
Half(w) == [i \in 1..w |-> IF i = w THEN 128 ELSE 0]                   \* 2^(8w-1)
HalfM(w) == [i \in 1..w |-> IF i = w THEN 127 ELSE 255]                \* 2^(8w-1) - 1
HalfP(w) == [i \in 1..w |-> IF i = w THEN 128 ELSE IF i = 1 THEN 1 ELSE 0]   \* 2^(8w-1) + 1
IntClasses(w) == {[k |-> "int", neg |-> s, mag |-> m] : s \in BOOLEAN,
                  m \in {<<>>, <<1>>, Pow(w), Max(w), Half(w), HalfM(w), HalfP(w)}}
\* binary64 patterns: 0, -0, 1, -1, largest binary32, first value that rounds to 2^128, 1e39, inf, -inf,
\* NaN, smallest binary32 subnormal, half of it (tie -> 0), just above half of it, 2^24+1 (tie -> even)
F64Classes == {[k |-> "f64", b |-> x] : x \in {
    <<0, 0, 0, 0, 0, 0, 0, 0>>, <<0, 0, 0, 0, 0, 0, 0, 128>>, <<0, 0, 0, 0, 0, 0, 240, 63>>,
    <<0, 0, 0, 0, 0, 0, 240, 191>>, <<0, 0, 0, 224, 255, 255, 239, 71>>, <<0, 0, 0, 240, 255, 255, 239, 71>>,
    <<255, 255, 255, 239, 255, 255, 239, 71>>,
    <<227, 4, 44, 86, 163, 130, 7, 72>>, <<0, 0, 0, 0, 0, 0, 240, 127>>, <<0, 0, 0, 0, 0, 0, 240, 255>>,
    <<0, 0, 0, 0, 0, 0, 248, 127>>, <<0, 0, 0, 0, 0, 0, 160, 54>>, <<0, 0, 0, 0, 0, 0, 144, 54>>,
    <<1, 0, 0, 0, 0, 0, 144, 54>>, <<0, 0, 0, 16, 0, 0, 112, 65>>, <<0, 0, 0, 48, 0, 0, 112, 65>>,
    <<1, 0, 0, 0, 0, 0, 0, 0>>, <<154, 153, 153, 153, 153, 153, 185, 63>>}}
OpsCodec == UNION {{Op("set", p, v) : v \in IntClasses(P!Width(CfgT.type[p]))} : p \in 1..8}
            \cup {Op("set", p, v) : p \in 9..10, v \in F64Classes}
            \cup {Op("set", 9, [k |-> "int", neg |-> FALSE, mag |-> <<1>>]), Op("set", 1, [k |-> "f64", b |-> <<0, 0, 0, 0, 0, 0, 240, 63>>])}
====
