SPECIFICATION Spec
CONSTANTS
  Cfg0 <- CfgC
  Users = {1}
  Ops <- OpsCbs
  MaxOps = 3
  Notifs <- NotifsA
  MaxNotif = 1
  MaxDup = 0
  DistinctPatterns = FALSE
  Bug = "liveIter"
  OneQueryPerCmd = FALSE
INVARIANT TypeOK
INVARIANT CallsOK
INVARIANT WireOK
INVARIANT RxOK
INVARIANT GetOK
INVARIANT FinalOK
INVARIANT EndOK
INVARIANT NoWedge
CHECK_DEADLOCK FALSE
