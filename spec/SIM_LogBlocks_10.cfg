SPECIFICATION Spec
CONSTANTS
  NC = 2
  TocC <- TocSim
  VarAlpha <- AlphaSim
  BasicAlpha <- Basic
  MaxFree = 3
  MaxBasic = 5
  MaxUniform = 12
  Periods <- PeriodsSim
  Statuses <- StatusesSim
  MaxOps = 14
  MaxFaults = 2
  MaxData = 4
  MaxLate = 1
  TocAlts = {}
  IdMod = 255
  Bugs = {"dup_readd"}
  WithSync = FALSE
INVARIANT TypeOK
CHECK_DEADLOCK FALSE
