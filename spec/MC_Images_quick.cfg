SPECIFICATION Spec
CONSTANTS
  Bug = "none"
  Fmts <- FmtsAll
  CaseSet <- CasesQuick
  MkCase <- MCMkCase
  MaxCorrupt = 1
  CorruptPos <- CorPosQuick
  CorruptVals <- AllBytes
INVARIANT CaseOK
INVARIANT EnvelopeGuard
INVARIANT TypeOK
CHECK_DEADLOCK FALSE
