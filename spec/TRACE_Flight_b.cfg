SPECIFICATION Spec
CONSTANTS
  Helper = "MC"
  DH = 500
  DV = 500
  DL = 0
  X0 = 0
  Y0 = 0
  Z0 = 0
CHECK_DEADLOCK FALSE
