SPECIFICATION Spec
CONSTANTS
  RC = 2
  WC = 3
  MaxLen = 7
  Mems = {0}
  Addrs = {0}
  NReq = 2
  NErr = 1
  NDup = 1
  MaxUid = 12
  Bug = "registerAfterSend"
  ErrSts = {1}
  HostSts = {1}
  DeckMems = {}
  SendFail = TRUE
INVARIANT UidBound
INVARIANT AtMostOnce
INVARIANT Limits
INVARIANT Tiling
INVARIANT WriteOrder
INVARIANT Complete
INVARIANT NotWedged
INVARIANT NoNoteForRefused
CHECK_DEADLOCK FALSE
