SPECIFICATION FairSpec
CONSTANTS
  NP = 3
  Vals <- ValsQuick
  NoValue = FALSE
  Natures <- NaturesAll
  Statuses <- StatusesQuick
  MaxFile = 3
  NCalls = 1
  Resend = TRUE
  MaxDrop = 2
  MaxDup = 1
  MaxEarly = 1
  LinkLoss = FALSE
  WaitMode = "forever"
  Bug = "none"
VIEW view
CHECK_DEADLOCK FALSE
INVARIANT TypeOK
INVARIANT PropsOK
INVARIANT StoredOnTrue
INVARIANT NoHang
PROPERTY Termination
