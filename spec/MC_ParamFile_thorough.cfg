SPECIFICATION Spec
CONSTANTS
  NP = 3
  Vals <- ValsThorough
  NoValue = FALSE
  Natures <- NaturesAll
  Statuses <- StatusesQuick
  MaxFile = 3
  NCalls = 1
  Resend = TRUE
  MaxDrop = 1
  MaxDup = 1
  MaxEarly = 1
  LinkLoss = TRUE
  WaitMode = "forever"
  Bug = "none"
VIEW view
CHECK_DEADLOCK FALSE
INVARIANT TypeOK
INVARIANT PropsOK
INVARIANT StoredOnTrue
