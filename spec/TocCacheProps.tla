------------------------------ MODULE TocCacheProps ------------------------------
(* C11 -- the listed property, over observable history only (no variables).

   "A cached table of contents is used only when the checksum announced by the device equals the
    one it was stored under, and what is loaded is entry-for-entry identical to what was
    downloaded and stored (index, group, name, types, access, extended marker) for both log and
    parameter tables.  A cache file that is missing, truncated at any byte as after a crash
    during the write, or otherwise unparsable is treated as a miss and the table is downloaded,
    never producing a partial or wrong table or a failed connection.  The read-only cache
    directory is never written."

   Observables
     table  : sequence of entries in canonical key order (the table is group -> name -> element;
              the keys are unique, so positional equality = entry-for-entry equality)
     entry  : record over EntryFields; kg/kn are the keys the element is filed under, the rest
              are the element's own attributes as listed by the property (types = ctype + pytype).
              Values are opaque (compared with = only).
     files  : function whose DOMAIN is the set of <<directory, checksum>> pairs for which a cache
              file exists;  files[<<d, c>>] = [st, tab] with
                st = "complete": the file holds everything the cache wrote when it stored tab under c
                st = "damaged" : the file exists but is cut short / empty / not parsable as a table
                st = "foreign" : the file is complete, but what it holds was stored under ANOTHER
                                 checksum than the one it is named by (tab = that content)
              (a missing file is simply not in the domain)
     o      : one table set-up of one connection
              [crc        announced by the device,
               dirs       directories this cache object reads (ro and rw of the process),
               used       the cached data was adopted as the table (no download),
               raised     an exception escaped from the cache lookup,
               downloaded every entry was requested from the device,
               done       the set-up of this table completed,
               got        the table held by the library afterwards,
               dev        the device's table]
   Readings (DESIGN 3.1(7) and reports/C11.md): the cache is keyed by checksum alone; a hit is
   judged against any complete file stored under the announced checksum in a directory the cache
   reads; a miss is always allowed; what must follow a miss is demanded only where the property
   speaks (no intact file under the checksum, or a damaged one present). *)
EXTENDS Naturals, Sequences, FiniteSets

EntryFields == <<"kg", "kn", "ident", "group", "name", "ctype", "pytype", "access", "ext">>

Min(S) == CHOOSE x \in S : \A y \in S : x <= y

\* "" when equal, else the name of the first field that differs
EntryDiff(x, y) ==
    LET bad == {i \in DOMAIN EntryFields : x[EntryFields[i]] # y[EntryFields[i]]}
    IN  IF bad = {} THEN "" ELSE EntryFields[Min(bad)]

\* "" when entry-for-entry identical, "count" when the number of entries differs, else the field
TableDiff(a, b) ==
    IF Len(a) # Len(b) THEN "count"
    ELSE LET bad == {i \in DOMAIN a : EntryDiff(a[i], b[i]) # ""}
         IN  IF bad = {} THEN "" ELSE EntryDiff(a[Min(bad)], b[Min(bad)])

Intact(files, dirs, c)  == {d \in dirs : <<d, c>> \in DOMAIN files /\ files[<<d, c>>].st = "complete"}
Damaged(files, dirs, c) == {d \in dirs : <<d, c>> \in DOMAIN files /\ files[<<d, c>>].st = "damaged"}
Foreign(files, dirs, c) == {d \in dirs : <<d, c>> \in DOMAIN files /\ files[<<d, c>>].st = "foreign"}
StoredUnder(files, dirs, c) == {files[<<d, c>>].tab : d \in Intact(files, dirs, c)}

\* ---- clause 1: used only under the checksum it was stored under, identical to what was stored
UsedClause(o, files) ==
    IF Intact(files, o.dirs, o.crc) = {}
    THEN IF Foreign(files, o.dirs, o.crc) # {} THEN "StoredUnderOtherChecksumUsed"
         ELSE IF Damaged(files, o.dirs, o.crc) # {} THEN "DamagedFileUsed"
         ELSE "UsedWithoutStoredFile"          \* nothing is stored under the announced checksum
    ELSE IF \E t \in StoredUnder(files, o.dirs, o.crc) : TableDiff(o.got, t) = "" THEN "ok"
    ELSE "LoadedDiffers_" \o TableDiff(o.got, CHOOSE t \in StoredUnder(files, o.dirs, o.crc) : TRUE)

\* ---- clause 2: missing / cut / unparsable => miss => download => right table, connection completes
Covered(o, files) == \/ Intact(files, o.dirs, o.crc) = {}
                     \/ Damaged(files, o.dirs, o.crc) # {} \/ Foreign(files, o.dirs, o.crc) # {}

MissClause(o, files) ==
    IF ~Covered(o, files) THEN "ok"            \* a miss beside an intact file: the property is silent
    ELSE IF o.raised THEN "DecodeErrorEscaped"
    ELSE IF ~o.done THEN "ConnectionFailed"
    ELSE IF ~o.downloaded THEN "NotDownloaded"
    ELSE IF TableDiff(o.got, o.dev) # "" THEN "WrongTableAfterMiss_" \o TableDiff(o.got, o.dev)
    ELSE "ok"

SetupClause(o, files) == IF o.used THEN UsedClause(o, files) ELSE MissClause(o, files)
SetupOK(o, files) == SetupClause(o, files) = "ok"

\* ---- the connection as a whole: when both tables went down the miss path the property covers,
\*      `connected` must be reported (a hit path is not addressed: 3.1(7), log/param collisions)
ConnectionClause(logO, parO, logFiles, parFiles, connected) ==
    IF /\ ~logO.used /\ Covered(logO, logFiles) /\ ~parO.used /\ Covered(parO, parFiles)
       /\ ~connected
    THEN "ConnectionFailed" ELSE "ok"

\* ---- clause 3: the read-only directory is never written.  before/after = listing of the
\*      directory that served as ro during one process: set of <<name, size, digest, mtime>>
RoClause(before, after) == IF before # after THEN "ReadOnlyDirWritten" ELSE "ok"
=============================================================================
