------------------------------ MODULE TocFetchProps ------------------------------
(* C03 -- the listed property, over observable history only.

   "Once connected is signalled, the library's log and parameter tables of contents are exactly
    the device's: the same set of group.name entries, each with the device's index, C type and
    access attributes (and persistence marker for parameters) ...  Lookup by name, by index and
    by (group, name) agree with each other."

   Device table  dev : Seq of [group : Seq(1..255), name : Seq(1..255), type : 0..255, xt : 0..255]
                 the entry at position k has index k-1; `type` is the type byte of the TOC item
                 reply, `xt` the extended-type byte the device answers for this parameter
                 (meaningful only when the extended bit is set; 1 = persistent).
   Library table lib : Seq (any order) of
                 [ident, group, name, ctype, pytype, access, extended, persistent]
                 (log elements have no extended/persistent attribute: FALSE).
   Lookups       lk  : Seq over the device entries; lk[k] = [byname, byid, bygn], each the
                 <<ident, group, name>> of the element the library returned for the key built
                 from device entry k ("group.name", index k-1, (group, name)), or <<>> for None.

   Where the expected values come from (independent of the decoders under test):
     log type codes    tools/crtp-dissector.lua get_log_types (1..8 = UINT8, UINT16, UINT32, INT8,
                       INT16, INT32, FLOAT, FP16); the dissector lists no access flag for log items,
                       so the access attribute of a log entry with a bare type code is 0.
     param type byte   tools/crtp-dissector.lua get_param_types: low nibble = type
                       (bit3 unsigned, bit2 float, bits0-1 log2 of the width), 0x10 extended,
                       0x40 read-only; firmware param.h for the codes the dissector omits
                       (0x0B/0x03 64-bit, 0x05 FP16, 0x07 double).
     pytype            the struct format letter of the C type.  The property text does not mention
                       it; it is compared as "the representation of the C type".  For the parameter
                       FP16 code the library deliberately has no format ('') and that is accepted. *)
EXTENDS Naturals, Sequences, FiniteSets

LogType(c) ==
    CASE c = 1 -> <<"uint8_t", "<B">>  [] c = 2 -> <<"uint16_t", "<H">>
      [] c = 3 -> <<"uint32_t", "<L">> [] c = 4 -> <<"int8_t", "<b">>
      [] c = 5 -> <<"int16_t", "<h">>  [] c = 6 -> <<"int32_t", "<i">>
      [] c = 7 -> <<"float", "<f">>    [] c = 8 -> <<"FP16", "<e">>
      [] OTHER -> <<"?", "?">>
LogCodes == 1..8

ParamType(c) ==
    CASE c = 8 -> <<"uint8_t", "<B">>   [] c = 9 -> <<"uint16_t", "<H">>
      [] c = 10 -> <<"uint32_t", "<L">> [] c = 11 -> <<"uint64_t", "<Q">>
      [] c = 0 -> <<"int8_t", "<b">>    [] c = 1 -> <<"int16_t", "<h">>
      [] c = 2 -> <<"int32_t", "<i">>   [] c = 3 -> <<"int64_t", "<q">>
      [] c = 5 -> <<"FP16", "">>        [] c = 6 -> <<"float", "<f">>
      [] c = 7 -> <<"double", "<d">>
      [] OTHER -> <<"?", "?">>
ParamCodes == {8, 9, 10, 11, 0, 1, 2, 3, 5, 6, 7}

Bit(b, n) == (b \div n) % 2 = 1

\* what the library must show for device entry k
Expected(kind, k, d) ==
    IF kind = "log"
    THEN [ident |-> k - 1, group |-> d.group, name |-> d.name,
          ctype |-> LogType(d.type)[1], pytype |-> LogType(d.type)[2],
          access |-> 0, extended |-> FALSE, persistent |-> FALSE]
    ELSE [ident |-> k - 1, group |-> d.group, name |-> d.name,
          ctype |-> ParamType(d.type % 16)[1], pytype |-> ParamType(d.type % 16)[2],
          access |-> IF Bit(d.type, 64) THEN 1 ELSE 0,
          extended |-> Bit(d.type, 16),
          persistent |-> Bit(d.type, 16) /\ d.xt = 1]

Has(lib, g, n) == \E j \in DOMAIN lib : lib[j].group = g /\ lib[j].name = n
Find(lib, g, n) == lib[CHOOSE j \in DOMAIN lib : lib[j].group = g /\ lib[j].name = n]

\* clause names are what a failing check reports
EntryClause(kind, k, d, lib) ==
    IF ~Has(lib, d.group, d.name) THEN "MissingEntry"
    ELSE LET e == Find(lib, d.group, d.name)
             x == Expected(kind, k, d) IN
         IF e.ident # x.ident THEN "WrongIndex"
         ELSE IF e.ctype # x.ctype THEN "WrongCType"
         ELSE IF e.pytype # x.pytype THEN "WrongPyType"
         ELSE IF e.access # x.access THEN "WrongAccess"
         ELSE IF e.extended # x.extended THEN "WrongExtended"
         ELSE IF e.persistent # x.persistent THEN "WrongPersistent"
         ELSE "ok"

BadEntries(kind, dev, lib) == {k \in DOMAIN dev : EntryClause(kind, k, dev[k], lib) # "ok"}
Min(S) == CHOOSE x \in S : \A y \in S : x <= y

\* <<clause, witness>>: witness = position (1-based) of the first offending device entry, or of
\* the first library entry the device does not have, 0 when there is none
TableVerdict(kind, dev, lib) ==
    LET bad == BadEntries(kind, dev, lib)
        extra == {j \in DOMAIN lib : ~\E k \in DOMAIN dev :
                        dev[k].group = lib[j].group /\ dev[k].name = lib[j].name}
    IN  IF bad # {} THEN <<EntryClause(kind, Min(bad), dev[Min(bad)], lib), Min(bad)>>
        ELSE IF extra # {} THEN <<"ExtraEntry", Min(extra)>>
        ELSE IF Len(lib) # Len(dev) THEN <<"DuplicateEntry", 0>>
        ELSE <<"ok", 0>>

TableClause(kind, dev, lib) == TableVerdict(kind, dev, lib)[1]

\* the three lookup paths agree with each other (and, the table being the device's, with it)
LookupVerdict(dev, lk) ==
    IF Len(lk) # Len(dev) THEN <<"LookupsMissing", 0>>
    ELSE LET dis == {k \in DOMAIN dev : ~(lk[k].byname = lk[k].byid /\ lk[k].byid = lk[k].bygn)}
             wrong == {k \in DOMAIN dev : lk[k].bygn # <<k - 1, dev[k].group, dev[k].name>>}
         IN  IF dis # {} THEN <<"LookupsDisagree", Min(dis)>>
             ELSE IF wrong # {} THEN <<"LookupWrong", Min(wrong)>>
             ELSE <<"ok", 0>>

LookupClause(dev, lk) == LookupVerdict(dev, lk)[1]

\* one snapshot of one table (taken when connected is signalled, and again at the end)
SnapshotVerdict(kind, dev, lib, lk) ==
    LET t == TableVerdict(kind, dev, lib) IN
    IF t[1] # "ok" THEN t ELSE LookupVerdict(dev, lk)

\* legality of a device table (the quantifier of the property): distinct group.name entries,
\* non-empty NUL-free names without '.', known type codes
LegalTable(kind, dev) ==
    /\ \A k \in DOMAIN dev :
          /\ Len(dev[k].group) >= 1 /\ Len(dev[k].name) >= 1
          /\ \A i \in DOMAIN dev[k].group : dev[k].group[i] \in (1..255) \ {46}
          /\ \A i \in DOMAIN dev[k].name : dev[k].name[i] \in (1..255) \ {46}
          /\ IF kind = "log" THEN dev[k].type \in LogCodes ELSE (dev[k].type % 16) \in ParamCodes
    /\ \A k1, k2 \in DOMAIN dev :
          (dev[k1].group = dev[k2].group /\ dev[k1].name = dev[k2].name) => k1 = k2
=============================================================================
