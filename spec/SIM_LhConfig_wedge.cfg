SPECIFICATION Spec
CONSTANTS
  NCH = 16
  NBS = 3
  Menu <- MenuSim
  Follow <- FollowSim
  ReadData <- ReadDataThorough
  MaxReq = 6
  Bugs <- BugsWedge
INVARIANT TypeOK
INVARIANT SlotsAgree
CHECK_DEADLOCK FALSE
