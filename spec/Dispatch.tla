------------------------------ MODULE Dispatch ------------------------------
(* Design spec of cflib.crazyflie._IncomingPacketHandler (C07).

   One action per step of the dispatcher loop: Begin (a packet has been taken from the link and
   the all-packet callbacks are through), Step (the generator/list yields its next element and,
   if it matches, the callback runs and executes its script through the public add/remove API),
   End.  LiveIteration = TRUE is the pre-fix behaviour (a generator over the live list:
   Python list-iterator semantics, an index that keeps counting while the list shrinks);
   FALSE is the repaired behaviour (the matching registrations are collected first).  *)
EXTENDS Naturals, Sequences, FiniteSets, Bitwise, TLC

CONSTANTS NRegs,          \* callbacks 1..NRegs are registered initially, NRegs+1 may be added
          Patterns,       \* set of [port, pmask, chan, cmask]
          Headers,        \* header bytes the link delivers
          NPackets,
          LiveIteration

P == INSTANCE DispatchProps

Who    == 1..(NRegs + 1)
Extra  == NRegs + 1
Script == {[k |-> "nop", t |-> 0], [k |-> "raise", t |-> 0], [k |-> "removeSelf", t |-> 0],
           [k |-> "addExtra", t |-> 0]}
          \cup {[k |-> "remove", t |-> w] : w \in 1..NRegs}

VARIABLES pat, script,           \* chosen in Init, constant afterwards
          cbs,                   \* the live registration list (sequence of who)
          mode, hdr, idx, todo,  \* dispatcher loop state
          left,                  \* packets still to come
          cur,                   \* history of the dispatch in progress [before, touched, calls]
          done                   \* history: finished dispatches (records of DispatchProps)

vars == <<pat, script, cbs, mode, hdr, idx, todo, left, cur, done>>

Remove(s, w) == SelectSeq(s, LAMBDA x : x # w)

\* the configuration (pattern and script of every callback) is chosen one callback per step so
\* that random simulation can sample it; exhaustive checking reaches every assignment
Init == /\ pat = [w \in Who |-> CHOOSE p \in Patterns : TRUE]
        /\ script = [w \in Who |-> [k |-> "nop", t |-> 0]]
        /\ cbs = [i \in 1..NRegs |-> i]
        /\ mode = "setup" /\ hdr = 0 /\ idx = 1 /\ todo = <<>>
        /\ left = NPackets
        /\ cur = [before |-> <<>>, touched |-> {}, calls |-> <<>>]
        /\ done = <<>>

Configure(p, s) ==
    /\ mode = "setup"
    /\ idx = Extra => s.k \in {"nop", "removeSelf"}
    /\ pat' = [pat EXCEPT ![idx] = p]
    /\ script' = [script EXCEPT ![idx] = s]
    /\ idx' = idx + 1
    /\ mode' = IF idx = Extra THEN "idle" ELSE "setup"
    /\ UNCHANGED <<cbs, hdr, todo, left, cur, done>>

Begin(h) == /\ mode = "idle" /\ left > 0
            /\ mode' = "iter" /\ hdr' = h /\ idx' = 1
            /\ todo' = IF LiveIteration THEN <<>>
                       ELSE SelectSeq(cbs, LAMBDA w : P!Matches(pat[w], h))
            /\ cur' = [before |-> cbs, touched |-> {}, calls |-> <<>>]
            /\ UNCHANGED <<pat, script, cbs, left, done>>

\* the callback of registration w runs: history + the script's effect on the list
Call(w) == LET s == script[w] IN
    /\ cur' = [cur EXCEPT !.calls = Append(@, w),
                          !.touched = CASE s.k = "removeSelf" /\ w \in P!Range(cbs) -> @ \cup {w}
                                        [] s.k = "remove" /\ s.t \in P!Range(cbs) -> @ \cup {s.t}
                                        [] s.k = "addExtra" /\ Extra \notin P!Range(cbs) -> @ \cup {Extra}
                                        [] OTHER -> @]
    /\ cbs' = CASE s.k = "removeSelf" -> Remove(cbs, w)
                [] s.k = "remove" -> Remove(cbs, s.t)
                [] s.k = "addExtra" /\ Extra \notin P!Range(cbs) -> Append(cbs, Extra)
                [] OTHER -> cbs

StepLive == /\ mode = "iter" /\ LiveIteration /\ idx <= Len(cbs)
            /\ idx' = idx + 1
            /\ IF P!Matches(pat[cbs[idx]], hdr) THEN Call(cbs[idx])
               ELSE UNCHANGED <<cur, cbs>>
            /\ UNCHANGED <<pat, script, mode, hdr, todo, left, done>>

StepSnap == /\ mode = "iter" /\ ~LiveIteration /\ todo # <<>>
            /\ todo' = Tail(todo)
            /\ Call(Head(todo))
            /\ UNCHANGED <<pat, script, mode, hdr, idx, left, done>>

End == /\ mode = "iter"
       /\ IF LiveIteration THEN idx > Len(cbs) ELSE todo = <<>>
       /\ mode' = "idle" /\ left' = left - 1
       /\ done' = Append(done, [hdr |-> hdr, before |-> cur.before,
                                touched |-> cur.touched, calls |-> cur.calls])
       /\ UNCHANGED <<pat, script, cbs, hdr, idx, todo, cur>>

Next == (\E p \in Patterns, s \in Script : Configure(p, s))
        \/ (\E h \in Headers : Begin(h)) \/ StepLive \/ StepSnap \/ End

Spec == Init /\ [][Next]_vars

\* ---- properties (C07) ----
AllPacketsOK == \A i \in DOMAIN done : P!PacketOK(done[i], pat)
\* removing a registration stops deliveries for that registration only: between dispatches the
\* list is exactly what the add/remove history says (checked structurally: no who twice)
NoDupRegs == \A w \in Who : P!Count(cbs, w) <= 1
TypeOK == mode \in {"setup", "idle", "iter"} /\ left \in 0..NPackets
=============================================================================
