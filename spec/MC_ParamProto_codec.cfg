SPECIFICATION Spec
CONSTANTS
  Cfg0 <- CfgT
  Users = {1}
  Ops <- OpsCodec
  MaxOps = 1
  Notifs = {}
  MaxNotif = 0
  MaxDup = 0
  DistinctPatterns = FALSE
  Bug = "none"
  OneQueryPerCmd = FALSE
INVARIANT TypeOK
INVARIANT CallsOK
INVARIANT WireOK
INVARIANT RxOK
INVARIANT GetOK
INVARIANT FinalOK
INVARIANT EndOK
INVARIANT NoWedge
CHECK_DEADLOCK FALSE
