------------------------------ MODULE TocFetch ------------------------------
(* Design spec of the table-of-contents download (C03):
     cflib.crazyflie.toc.TocFetcher            (info request, elements one by one)
     cflib.crazyflie.log.LogTocElement / param.ParamTocElement   (element decoding)
     cflib.crazyflie.param.Param.refresh_toc + _ExtendedTypeFetcher (persistence marker)
     cflib.crazyflie.Crazyflie.send_packet / _check_for_answers    (retry pattern, as far as the
                                                                   download depends on it)
   One action per critical section of the code: Start (TocFetcher.start), Deliver (the
   dispatcher thread takes one packet from the link: _check_for_answers, then the port
   callbacks: TocFetcher._new_packet_cb or _ExtendedTypeFetcher._new_packet_cb), ExtSend (one
   turn of the _ExtendedTypeFetcher thread loop).  The environment is separate: DevReply (the
   device answers the oldest request), Dup (a reply is duplicated on the link), Timeout (the
   reply is late, the retry timer fires and the request goes out again -- so that a reply to an
   earlier request arrives later).  Replies in flight form a bag: they may be delivered in any
   order (delay / reordering).

   Packets are [ch, d] on the port of the table; d is the data as bytes.  Indices are encoded
   explicitly (i % 256, i \div 256) so that the 255/256 boundary is in the model.

   Round 2: the front end of the log download is part of the model (Log.refresh_toc sends the
   RESET command, its reply creates the Toc and starts the TocFetcher, guarded by `if not
   self.toc`), so that the RESET reply can be duplicated / delayed like every other reply; the
   cache is a state (absent, written by this release, written by an older release without the
   'extended' key, ...); the table checksum is part of the configuration and chosen so that the
   bytes of an INFO reply parse as an element.

   Bug = "none" is the code as it is; other values are named breakages used as vacuity guards
   (MC_TocFetch_bug_*.cfg must be refuted).  *)
EXTENDS Naturals, Sequences, FiniteSets, Bags, TLC

CONSTANTS Configs,   \* set of [kind, ver, dev, crc, cached, resend] one download may be started with
                     \* (cached: "none" | "own" = written by this release | "old" = written by a release that
                     \*  did not know extended types | "extra" = own + unknown keys | "broken" = unparsable)
          Budget,    \* number of environment faults (Dup + Timeout) per download
          Window,    \* faults are injected only while the index being fetched is in this set
          Bug

P == INSTANCE TocFetchProps

VARIABLES cfg,                      \* chosen by Start, constant afterwards
          lt,                       \* Log front end: "off" (param download) | "wait" (Log.toc is None, RESET sent) | "on" (Toc exists)
          fstate, cbOn, reqIdx, nItems,   \* TocFetcher.state / port callback registered / requested_index / nbr_of_items
          toc,                      \* Toc.toc as the sequence of elements in dict iteration order
          pend,                     \* Crazyflie._answer_patterns (set of [ch, d]: pattern = request here)
          up, down,                 \* requests on their way to the device (FIFO); replies in flight (bag)
          budget,
          xstate, xcount, xreq, xqueue, xlock,   \* _ExtendedTypeFetcher: registered/_count/_req_param/request_queue/_lock
          done, doneSnap            \* the finished callback chain has signalled completion; the table at that moment

vars == <<cfg, lt, fstate, cbOn, reqIdx, nItems, toc, pend, up, down, budget,
          xstate, xcount, xreq, xqueue, xlock, done, doneSnap>>

NoReq == 65536                      \* _req_param = -1
Lo(i) == i % 256
Hi(i) == i \div 256
N == Len(cfg.dev)

\* ---------------------------------------------------------------- the device (simdev twin)
DevAnswer(rq) ==
    LET c == rq.d[1] IN
    IF rq.ch = 1 THEN [ch |-> 1, d |-> <<c, 0, 0>>]      \* log control: [cmd] -> [cmd, block id, status]
    ELSE IF rq.ch = 0 THEN
      CASE c = 3 -> [ch |-> 0, d |-> <<3, Lo(N), Hi(N)>> \o cfg.crc \o (IF cfg.kind = "log" THEN <<16, 128>> ELSE <<>>)]
        [] c = 1 -> [ch |-> 0, d |-> <<1, Lo(N)>> \o cfg.crc \o (IF cfg.kind = "log" THEN <<16, 128>> ELSE <<>>)]
        [] c = 2 -> LET i == rq.d[2] + 256 * rq.d[3] IN
                    IF i < N THEN [ch |-> 0, d |-> <<2, rq.d[2], rq.d[3], cfg.dev[i + 1].type>> \o
                                                   cfg.dev[i + 1].group \o <<0>> \o cfg.dev[i + 1].name \o <<0>>]
                    ELSE [ch |-> 0, d |-> <<2>>]
        [] c = 0 -> LET i == rq.d[2] IN
                    IF i < N THEN [ch |-> 0, d |-> <<0, i, cfg.dev[i + 1].type>> \o
                                                   cfg.dev[i + 1].group \o <<0>> \o cfg.dev[i + 1].name \o <<0>>]
                    ELSE [ch |-> 0, d |-> <<0>>]
    ELSE \* misc channel: [2, id u16] -> [2, id u16, extended type]
      LET i == rq.d[2] + 256 * rq.d[3] IN
      [ch |-> 3, d |-> <<2, rq.d[2], rq.d[3], IF i < N THEN cfg.dev[i + 1].xt ELSE 0>>]

\* ---------------------------------------------------------------- element decoding (as implemented)
LibLogTypes == [c \in 1..8 |-> P!LogType(c)]        \* LogTocElement.types (keys 1..8, full byte looked up)
\* two NUL-terminated strings
FirstNul(s) == CHOOSE i \in 1..Len(s) : s[i] = 0 /\ \A j \in 1..(i - 1) : s[j] # 0
HasNul(s) == \E i \in 1..Len(s) : s[i] = 0
Decodable(data) ==     \* the constructor does not raise
    IF cfg.kind = "log"
    THEN Len(data) >= 1 /\ data[1] \in DOMAIN LibLogTypes     \* bytes.find() = -1 without NUL: no exception
    ELSE Len(data) >= 2 /\ HasNul(Tail(data)) /\ (data[1] % 16) \in P!ParamCodes
Decode(ident, data) ==
    LET s == Tail(data)
        nul == HasNul(s)
        z == IF nul THEN FirstNul(s) ELSE 0
        \* log without NUL: naming[:-1] for the group and naming[0:-1] for the name
        g == IF nul THEN SubSeq(s, 1, z - 1) ELSE SubSeq(s, 1, Len(s) - 1)
        rest == SubSeq(s, z + 1, Len(s))
        \* log: naming[find+1:-1]; param: split at NUL, second piece
        n == IF cfg.kind = "log" THEN SubSeq(rest, 1, Len(rest) - 1)
             ELSE IF HasNul(rest) THEN SubSeq(rest, 1, FirstNul(rest) - 1) ELSE rest
        m == data[1]
    IN IF cfg.kind = "log"
       THEN [ident |-> ident, group |-> g, name |-> n, ctype |-> LibLogTypes[m][1], pytype |-> LibLogTypes[m][2],
             access |-> IF P!Bit(m, 16) THEN 16 ELSE 0, extended |-> FALSE, persistent |-> FALSE]
       ELSE [ident |-> ident, group |-> g, name |-> n,
             ctype |-> P!ParamType(m % 16)[1], pytype |-> P!ParamType(m % 16)[2],
             access |-> IF P!Bit(m, IF Bug = "AccessMask" THEN 32 ELSE 64) THEN 1 ELSE 0,
             extended |-> P!Bit(m, 16), persistent |-> FALSE]

\* Toc.add_element on the nested dict {group: {name: element}}.  `toc` is kept in the iteration
\* order of that dict (groups by first insertion, names by insertion within the group): the same
\* group.name replaces in place, a new name of a known group goes behind the last element of the
\* group, a new group goes to the end.
AddElement(t, e) ==
    IF \E i \in DOMAIN t : t[i].group = e.group /\ t[i].name = e.name
    THEN [i \in DOMAIN t |-> IF t[i].group = e.group /\ t[i].name = e.name THEN e ELSE t[i]]
    ELSE LET S == {i \in DOMAIN t : t[i].group = e.group} IN
         IF S = {} THEN Append(t, e)
         ELSE LET p == CHOOSE i \in S : \A j \in S : j <= i IN
              SubSeq(t, 1, p) \o <<e>> \o SubSeq(t, p + 1, Len(t))
Grouped(t) == t

\* what the cache returns on a hit: the table as stored by an earlier complete download
\* (TocCache stores ident, group, name, ctype, pytype, access, extended; not persistent)
CachedToc ==
    LET F[k \in 0..N] == IF k = 0 THEN <<>>
                         ELSE AddElement(F[k - 1], [P!Expected(cfg.kind, k, cfg.dev[k]) EXCEPT
                                                      !.persistent = FALSE,
                                                      !.extended = IF cfg.cached = "old" THEN FALSE ELSE @])
    IN F[N]
\* TocCache.fetch returns a table: the file parses and every entry has the keys the decoder reads
\* (a parameter entry without 'extended' raises KeyError inside fetch: the file is rejected); and
\* `if (cache_data)`: an empty cached table is falsy = a miss
CacheHit == /\ N > 0
            /\ \/ cfg.cached \in {"own", "extra"}
               \/ cfg.cached = "old" /\ (cfg.kind = "log" \/ Bug = "OldCacheAccepted")

\* ---------------------------------------------------------------- lookups (as implemented)
None == <<>>
Ref(e) == <<e.ident, e.group, e.name>>
ByGN(t, g, n) == IF \E i \in DOMAIN t : t[i].group = g /\ t[i].name = n
                 THEN t[CHOOSE i \in DOMAIN t : t[i].group = g /\ t[i].name = n] ELSE None
\* get_element_by_id scans the nested dict and returns the first element with that ident
\* (o = Grouped(t), the iteration order)
FirstWith(o, id) == LET S == {i \in DOMAIN o : o[i].ident = id} IN
                    IF S = {} THEN 0 ELSE CHOOSE i \in S : \A j \in S : i <= j
ById(o, id) == IF FirstWith(o, id) = 0 THEN None ELSE o[FirstWith(o, id)]
ByName(t, o, g, n) == LET e == ByGN(t, g, n) IN IF e = None THEN None ELSE ById(o, e.ident)
R(e) == IF e = None THEN <<>> ELSE Ref(e)
Lookups(t) == LET o == Grouped(t) IN
              [k \in 1..N |-> [byname |-> R(ByName(t, o, cfg.dev[k].group, cfg.dev[k].name)),
                               byid |-> R(ById(o, k - 1)),
                               bygn |-> R(ByGN(t, cfg.dev[k].group, cfg.dev[k].name))]]

\* ---------------------------------------------------------------- requests
InfoReq == [ch |-> 0, d |-> IF cfg.ver = 2 THEN <<3>> ELSE <<1>>]
ItemReq(i) == [ch |-> 0, d |-> IF cfg.ver = 2
                               THEN <<2, Lo(i), IF Bug = "Trunc8" THEN 0 ELSE Hi(i)>>
                               ELSE <<0, Lo(i)>>]
ExtReq(i) == [ch |-> 3, d |-> <<2, Lo(i), Hi(i)>>]
ResetReq == [ch |-> 1, d |-> <<5>>]

\* send_packet(pk, expected_reply): transmit and, on links that need it, arm the retry timer
Send(rq, pend0, up0) == /\ up' = Append(up0, rq)
                        /\ pend' = IF cfg.resend THEN pend0 \cup {rq} ELSE pend0

IsPrefix(p, s) == Len(p) <= Len(s) /\ SubSeq(s, 1, Len(p)) = p
\* _check_for_answers: the longest matching pattern is forgotten
Answered(r) ==
    LET m == {q \in pend : q.ch = r.ch /\ IsPrefix(q.d, r.d)} IN
    IF m = {} THEN pend
    ELSE pend \ {CHOOSE q \in m : \A q2 \in m : Len(q2.d) <= Len(q.d)}

\* ---------------------------------------------------------------- initial state, Start
Idle(c) == /\ cfg = c /\ lt = "off"
           /\ fstate = "idle" /\ cbOn = FALSE /\ reqIdx = 0 /\ nItems = 0
           /\ toc = <<>> /\ pend = {} /\ up = <<>> /\ down = EmptyBag /\ budget = Budget
           /\ xstate = "off" /\ xcount = 0 /\ xreq = NoReq /\ xqueue = <<>> /\ xlock = FALSE
           /\ done = FALSE /\ doneSnap = <<>>

NoCfg == [kind |-> "none", ver |-> 0, dev |-> <<>>, crc |-> <<>>, cached |-> "none", resend |-> FALSE]
Init == Idle(NoCfg)

\* param: TocFetcher.start (register the port callback, ask for the table info).
\* log:   Log.refresh_toc (self.toc = None, RESET command); the fetcher starts with the RESET reply.
\* (StartTo also resets everything else: fetchers are fresh objects for every download)
StartTo(c) ==
    LET first == IF c.kind = "log" THEN [ch |-> 1, d |-> <<5>>]
                 ELSE [ch |-> 0, d |-> IF c.ver = 2 THEN <<3>> ELSE <<1>>] IN
    /\ cfg' = c
    /\ lt' = IF c.kind = "log" THEN "wait" ELSE "off"
    /\ fstate' = IF c.kind = "log" THEN "idle" ELSE "info"
    /\ cbOn' = (c.kind # "log")
    /\ reqIdx' = 0 /\ nItems' = 0 /\ toc' = <<>>
    /\ up' = <<first>>
    /\ pend' = IF c.resend THEN {first} ELSE {}
    /\ down' = EmptyBag /\ budget' = Budget
    /\ xstate' = "off" /\ xcount' = 0 /\ xreq' = NoReq /\ xqueue' = <<>> /\ xlock' = FALSE
    /\ done' = FALSE /\ doneSnap' = <<>>
Start(c) == fstate = "idle" /\ cfg = NoCfg /\ StartTo(c)

\* Log._new_packet_cb, RESET reply: `if not self.toc:` -> new Toc, new TocFetcher, start.
\* ResetGuardLen: the guard also lets an existing but EMPTY table through (a Toc with __len__);
\* the second fetcher takes the place of the first in this model.
LogResetCb(r, pend1) ==
    IF Bug = "StaleFetcher" /\ Len(r.d) >= 3 /\ r.d[1] = 5 /\ lt = "wait" /\ cbOn
    THEN \* a fetcher of the dead connection is still registered and takes part: it goes on with ITS
         \* index and ITS item count on the new table (caricature of two fetchers on one port)
         /\ lt' = "on" /\ toc' = <<>>
         /\ Send(ItemReq(reqIdx), pend1, up)
         /\ UNCHANGED <<fstate, cbOn, reqIdx, nItems, xstate, xcount, xreq, xqueue, xlock, done, doneSnap>>
    ELSE
    IF Len(r.d) >= 3 /\ r.d[1] = 5 /\
       (lt = "wait" \/ (Bug = "ResetGuardLen" /\ lt = "on" /\ toc = <<>>))
    THEN /\ lt' = "on"
         /\ fstate' = "info" /\ cbOn' = TRUE /\ reqIdx' = 0 /\ nItems' = 0 /\ toc' = <<>>
         /\ Send(InfoReq, pend1, up)
         /\ UNCHANGED <<xstate, xcount, xreq, xqueue, xlock, done, doneSnap>>
    ELSE /\ pend' = pend1
         /\ UNCHANGED <<lt, fstate, cbOn, reqIdx, nItems, toc, up, xstate, xcount, xreq, xqueue, xlock, done, doneSnap>>

\* ---------------------------------------------------------------- completion chain
\* _toc_fetch_finished -> finished_callback.  log: done.  param: Param.refresh_toc.refresh_done
ExtElems(t) == SelectSeq(Grouped(t), LAMBDA e : e.extended)
Finish(t, pend1, up1) ==
    LET xe == IF cfg.kind = "param" THEN ExtElems(t) ELSE <<>> IN
    /\ cbOn' = FALSE
    /\ toc' = t
    /\ IF xe # <<>> /\ Bug # "EarlyDone"
       THEN /\ xstate' = "run" /\ xcount' = Len(xe)
            /\ xqueue' = [i \in DOMAIN xe |-> xe[i].ident]
            /\ UNCHANGED <<done, doneSnap, xreq, xlock>>
       ELSE /\ done' = TRUE /\ doneSnap' = t
            /\ IF xe # <<>>       \* EarlyDone: signalled although the queries are still to come
               THEN /\ xstate' = "run" /\ xcount' = Len(xe)
                    /\ xqueue' = [i \in DOMAIN xe |-> xe[i].ident]
               ELSE UNCHANGED <<xstate, xcount, xqueue>>
            /\ UNCHANGED <<xreq, xlock>>
    /\ pend' = pend1 /\ up' = up1

\* ---------------------------------------------------------------- TocFetcher._new_packet_cb
FetcherCb(r, pend1) ==
    LET payload == Tail(r.d) IN
    IF fstate = "info" THEN
        \* any channel-0 packet is taken for the info reply
        IF Len(payload) < (IF cfg.ver = 2 THEN 6 ELSE 5)
        THEN /\ pend' = pend1                          \* struct.error, swallowed by the dispatcher
             /\ UNCHANGED <<fstate, cbOn, reqIdx, nItems, toc, up, xstate, xcount, xreq, xqueue, xlock, done, doneSnap>>
        ELSE LET n == IF cfg.ver = 2 THEN payload[1] + 256 * payload[2] ELSE payload[1] IN
             /\ nItems' = n
             /\ IF CacheHit
                THEN /\ Finish(CachedToc, pend1, up)
                     /\ UNCHANGED <<fstate, reqIdx>>
                ELSE /\ fstate' = "elem" /\ reqIdx' = 0
                     /\ IF n > 0
                        THEN /\ Send(ItemReq(0), pend1, up)
                             /\ UNCHANGED <<cbOn, toc, xstate, xcount, xreq, xqueue, xlock, done, doneSnap>>
                        ELSE Finish(toc, pend1, up)
    ELSE IF fstate = "elem" THEN
        LET hdr == IF cfg.ver = 2 THEN 2 ELSE 1 IN
        IF Len(payload) < hdr
        THEN /\ pend' = pend1                          \* struct.error / IndexError on an empty item reply
             /\ UNCHANGED <<fstate, cbOn, reqIdx, nItems, toc, up, xstate, xcount, xreq, xqueue, xlock, done, doneSnap>>
        ELSE LET ident == IF cfg.ver = 2 THEN payload[1] + 256 * payload[2] ELSE payload[1]
                 data == SubSeq(payload, hdr + 1, Len(payload))
                 match == CASE Bug = "AcceptAny" -> TRUE
                            [] Bug = "AcceptHigher" -> ident >= reqIdx
                            [] Bug = "Trunc8" -> ident % 256 = reqIdx % 256
                            [] OTHER -> ident = reqIdx
             IN
             IF ~match \/ ~Decodable(data)
             THEN /\ pend' = pend1                     \* not the requested index: ignored (or the constructor raised)
                  /\ UNCHANGED <<fstate, cbOn, reqIdx, nItems, toc, up, xstate, xcount, xreq, xqueue, xlock, done, doneSnap>>
             ELSE LET t == AddElement(toc, Decode(ident, data))
                      last == IF Bug = "OffByOne" THEN nItems - 2 ELSE nItems - 1 IN
                  IF reqIdx < last
                  THEN /\ reqIdx' = reqIdx + 1 /\ toc' = t
                       /\ Send(ItemReq(reqIdx + 1), pend1, up)
                       /\ UNCHANGED <<fstate, cbOn, nItems, xstate, xcount, xreq, xqueue, xlock, done, doneSnap>>
                  ELSE /\ Finish(t, pend1, up)
                       /\ UNCHANGED <<fstate, reqIdx, nItems>>
    ELSE /\ pend' = pend1
         /\ UNCHANGED <<fstate, cbOn, reqIdx, nItems, toc, up, xstate, xcount, xreq, xqueue, xlock, done, doneSnap>>

\* ---------------------------------------------------------------- _ExtendedTypeFetcher._new_packet_cb
MarkPersistent(t, id) ==
    LET o == Grouped(t)
        hit == FirstWith(o, id)
    IN [i \in DOMAIN t |-> IF t[i].group = o[hit].group /\ t[i].name = o[hit].name
                           THEN [t[i] EXCEPT !.persistent = TRUE] ELSE t[i]]
ExtCb(r, pend1) ==
    LET id == r.d[2] + 256 * r.d[3] IN
    IF Len(r.d) >= 4 /\ xreq = id
    THEN LET t == IF r.d[4] = 1 THEN MarkPersistent(toc, id) ELSE toc IN
         /\ toc' = t
         /\ xcount' = xcount - 1
         /\ IF xcount - 1 = 0
            THEN /\ done' = TRUE /\ doneSnap' = (IF done THEN doneSnap ELSE t)
                 /\ xqueue' = <<>>                     \* _close empties the queue
            ELSE UNCHANGED <<done, doneSnap, xqueue>>
         /\ xreq' = NoReq /\ xlock' = FALSE
         /\ pend' = pend1
         /\ UNCHANGED <<fstate, cbOn, reqIdx, nItems, up, xstate>>
    ELSE /\ pend' = pend1
         /\ UNCHANGED <<fstate, cbOn, reqIdx, nItems, toc, up, xstate, xcount, xreq, xqueue, xlock, done, doneSnap>>

\* the dispatcher thread handles one received packet
Process(r) ==
    LET pend1 == Answered(r) IN
    IF r.ch = 1 /\ cfg.kind = "log" THEN LogResetCb(r, pend1)
    ELSE IF r.ch = 0 /\ cbOn THEN FetcherCb(r, pend1) /\ UNCHANGED lt
    ELSE IF r.ch = 3 /\ xstate # "off" THEN ExtCb(r, pend1) /\ UNCHANGED lt
    ELSE /\ pend' = pend1
         /\ UNCHANGED <<lt, fstate, cbOn, reqIdx, nItems, toc, up, xstate, xcount, xreq, xqueue, xlock, done, doneSnap>>

Deliver(r) == /\ BagIn(r, down)
              /\ down' = down (-) SetToBag({r})
              /\ Process(r)
              /\ UNCHANGED <<cfg, budget>>

\* one turn of _ExtendedTypeFetcher.run: take a request, take the lock, remember the id, send
ExtSend == /\ xstate = "run" /\ xqueue # <<>> /\ ~xlock
           /\ xlock' = TRUE /\ xreq' = Head(xqueue) /\ xqueue' = Tail(xqueue)
           /\ Send(ExtReq(Head(xqueue)), pend, up)
           /\ UNCHANGED <<cfg, lt, fstate, cbOn, reqIdx, nItems, toc, down, budget, xstate, xcount, done, doneSnap>>

\* ---------------------------------------------------------------- environment
DevReply == /\ up # <<>>
            /\ up' = Tail(up)
            /\ down' = down (+) SetToBag({DevAnswer(Head(up))})
            /\ UNCHANGED <<cfg, lt, fstate, cbOn, reqIdx, nItems, toc, pend, budget,
                           xstate, xcount, xreq, xqueue, xlock, done, doneSnap>>

\* large tables: the faults are placed around the indices of interest (a stale reply may still
\* arrive at any later moment)
Hot == IF fstate = "elem" /\ cbOn THEN reqIdx \in Window
       ELSE IF xstate = "run" /\ ~done /\ xreq # NoReq THEN xreq \in Window
       ELSE TRUE

Dup(r) == /\ budget > 0 /\ BagIn(r, down) /\ Hot
          /\ down' = down (+) SetToBag({r})
          /\ budget' = budget - 1
          /\ UNCHANGED <<cfg, lt, fstate, cbOn, reqIdx, nItems, toc, pend, up,
                         xstate, xcount, xreq, xqueue, xlock, done, doneSnap>>

\* the awaited reply is late: the retry timer fires and the same request goes out again
Timeout(q) == /\ budget > 0 /\ q \in pend /\ Hot
              /\ up' = Append(up, q)
              /\ budget' = budget - 1
              /\ UNCHANGED <<cfg, lt, fstate, cbOn, reqIdx, nItems, toc, pend, down,
                             xstate, xcount, xreq, xqueue, xlock, done, doneSnap>>

\* A duplicated protocol-version (or link-source) reply.  The repaired PlatformService hands the
\* platform information over once per fetch, so the duplicate changes nothing and is not an action
\* here.  VersionRestarts is the behaviour before the repair: every version reply calls the
\* connection set-up again, i.e. Log.refresh_toc (self.toc = None, RESET) while a download may
\* be under way.
Restart == /\ Bug = "VersionRestarts" /\ budget > 0 /\ cfg.kind = "log" /\ lt # "off" /\ ~done
           /\ lt' = "wait"
           /\ Send(ResetReq, pend, up)
           /\ budget' = budget - 1
           /\ UNCHANGED <<cfg, fstate, cbOn, reqIdx, nItems, toc, down,
                          xstate, xcount, xreq, xqueue, xlock, done, doneSnap>>

\* The link dies in the middle of the log download and the application opens it again on the same
\* object; the device has been reflashed (configuration c: a larger table).  In the code as it is
\* the fetcher of the dead link drops out at its next packet (it remembers its link object), so a
\* reconnect is a fresh Start and not a separate action.  StaleFetcher: the old fetcher takes the
\* new connection for its own (e.g. because it compares URIs) and stays registered.
Reconnect(c) ==
    /\ Bug = "StaleFetcher" /\ budget > 0 /\ cfg.kind = "log" /\ fstate = "elem" /\ cbOn /\ ~done
    /\ c.kind = "log" /\ c.ver = cfg.ver /\ c.cached = "none" /\ Len(c.dev) > Len(cfg.dev)
    /\ cfg' = c /\ lt' = "wait"
    /\ up' = <<ResetReq>> /\ pend' = (IF c.resend THEN {ResetReq} ELSE {}) /\ down' = EmptyBag
    /\ budget' = budget - 1
    /\ UNCHANGED <<fstate, cbOn, reqIdx, nItems, toc, xstate, xcount, xreq, xqueue, xlock, done, doneSnap>>

Next == \/ \E c \in Configs : Start(c) \/ Reconnect(c)
        \/ \E r \in BagToSet(down) : Deliver(r) \/ Dup(r)
        \/ ExtSend \/ DevReply \/ Restart
        \/ \E q \in pend : Timeout(q)

Spec == Init /\ [][Next]_vars

\* ---------------------------------------------------------------- properties (C03)
\* once completion is signalled the table is the device's -- at that moment and ever after
TableAtDone  == done => P!TableClause(cfg.kind, cfg.dev, doneSnap) = "ok"
TableStaysOK == done => P!TableClause(cfg.kind, cfg.dev, toc) = "ok"
LookupsOK    == done => P!LookupClause(cfg.dev, Lookups(toc)) = "ok"
\* the download does not stall: when nothing is in flight and no thread can move, it is complete
Quiescent == up = <<>> /\ down = EmptyBag /\ ~(xstate = "run" /\ xqueue # <<>> /\ ~xlock)
Progress == (cfg # NoCfg /\ Quiescent) => done
OnePattern == Cardinality(pend) <= 1
TypeOK == /\ fstate \in {"idle", "info", "elem"} /\ lt \in {"off", "wait", "on"}
          /\ reqIdx \in 0..65535 /\ nItems \in 0..65535 /\ budget \in 0..Budget
          /\ xstate \in {"off", "run"} /\ cbOn \in BOOLEAN /\ done \in BOOLEAN
LegalConfigs == \A c \in Configs : P!LegalTable(c.kind, c.dev)
=============================================================================
