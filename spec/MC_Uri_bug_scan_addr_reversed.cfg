SPECIFICATION Spec
CONSTANTS
  Bug = "scan_addr_reversed"
  EnvSet <- EnvBug
  Ops = {"scan"}
  Schemes <- AllSchemes
  Dongles <- DonglesBug
  Chans = {80}
  Rates = {"250K", "1M", "2M"}
  AddrSet <- AddrBug
  RateLimits <- RlNone
  ScanAddrs <- ScanAddrsQuick
  RespSets <- RespQuick
  NOps = 1
INVARIANT ParseOK
INVARIANT ClaimOK
INVARIANT LookupOK
INVARIANT OpenOK
INVARIANT ScanOK
INVARIANT TypeOK
CHECK_DEADLOCK FALSE
