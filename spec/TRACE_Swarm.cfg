SPECIFICATION Spec
CONSTANT MaxN = 6
CHECK_DEADLOCK FALSE
