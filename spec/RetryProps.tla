------------------------------ MODULE RetryProps ------------------------------
(* C10 -- the listed property over observable history (DESIGN 3.1(6)).

   Every record carries n, its position in the global order of observed events.
   wire : Seq([n, t, sess, req, first]) transmissions seen by the link (virtual ms); sess = the
                                       session of the link object that carried it (0 = a closed link),
                                       req = index into reqs, first = TRUE for the original send
   reqs : Seq([sess, pat, tmo, t])     requests sent with an expected reply: session in which the
                                       application sent it, pattern (sequence), timeout in ms
   ans  : Seq([t, sess, data])         incoming packets after the library has checked them for answers
   Patterns/packets are sequences of numbers (header first).                                        *)
EXTENDS Naturals, Sequences, FiniteSets

IsPrefix(p, d) == Len(p) <= Len(d) /\ \A i \in 1..Len(p) : p[i] = d[i]

\* Which packet answered which request: packets are taken in arrival order; a packet answers the
\* not yet answered request of its session, sent before it, whose pattern is the longest one
\* matching its leading bytes ("an incoming packet cancels only the pending request whose pattern
\* is its longest matching prefix").  Result: request index -> position n of its answer, 0 = none.
AnsMap(reqs, ans) ==
    LET F[k \in 0..Len(ans)] ==
          IF k = 0 THEN [r \in DOMAIN reqs |-> 0]
          ELSE LET prev == F[k - 1]
                   a == ans[k]
                   c == {r \in DOMAIN reqs : /\ prev[r] = 0 /\ reqs[r].sess = a.sess /\ reqs[r].n < a.n
                                              /\ IsPrefix(reqs[r].pat, a.data)}
               IN IF c = {} THEN prev
                  ELSE [prev EXCEPT ![CHOOSE r \in c : \A q \in c : Len(reqs[q].pat) <= Len(reqs[r].pat)] = a.n]
    IN F[Len(ans)]
AnsweredAt(reqs, ans, r) == AnsMap(reqs, ans)[r]

NoClosedLinkTx(wire) == \A i \in DOMAIN wire : wire[i].sess # 0
NoCrossSession(wire, reqs) == \A i \in DOMAIN wire : wire[i].sess = reqs[wire[i].req].sess
NoRetryWhenReliable(wire, reliable) == reliable => \A i \in DOMAIN wire : wire[i].first
\* consecutive transmissions of one request are at least its timeout apart
Interval(wire, reqs) ==
    \A i, j \in DOMAIN wire :
        (i < j /\ wire[i].req = wire[j].req /\ ~\E k \in (i + 1)..(j - 1) : wire[k].req = wire[i].req)
            => wire[j].t >= wire[i].t + reqs[wire[i].req].tmo
=============================================================================
