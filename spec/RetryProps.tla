------------------------------ MODULE RetryProps ------------------------------
(* C10 -- the listed property over observable history (DESIGN 3.1(6)).

   Every record carries n, its position in the global order of observed events.
   wire : Seq([n, t, sess, req, first]) transmissions seen by the link (virtual ms); sess = the
                                       session of the link object that carried it (0 = a closed link),
                                       req = index into reqs, first = TRUE for the original send
   reqs : Seq([sess, pat, tmo, t])     requests sent with an expected reply: session in which the
                                       application sent it, pattern (sequence), timeout in ms
   ans  : Seq([t, sess, data])         incoming packets after the library has checked them for answers
   Patterns/packets are sequences of numbers (header first).                                        *)
EXTENDS Naturals, Sequences, FiniteSets

IsPrefix(p, d) == Len(p) <= Len(d) /\ \A i \in 1..Len(p) : p[i] = d[i]

\* Which packet answered which request: packets are taken in arrival order; a packet answers the
\* not yet answered request of its session, sent before it, whose pattern is the longest one
\* matching its leading bytes ("an incoming packet cancels only the pending request whose pattern
\* is its longest matching prefix").  Result: request index -> position n of its answer, 0 = none.
AnsMap(reqs, ans) ==
    LET F[k \in 0..Len(ans)] ==
          IF k = 0 THEN [r \in DOMAIN reqs |-> 0]
          ELSE LET prev == F[k - 1]
                   a == ans[k]
                   c == {r \in DOMAIN reqs : /\ prev[r] = 0 /\ reqs[r].sess = a.sess /\ reqs[r].n < a.n
                                              /\ IsPrefix(reqs[r].pat, a.data)}
               IN IF c = {} THEN prev
                  ELSE [prev EXCEPT ![CHOOSE r \in c : \A q \in c : Len(reqs[q].pat) <= Len(reqs[r].pat)] = a.n]
    IN F[Len(ans)]
AnsweredAt(reqs, ans, r) == AnsMap(reqs, ans)[r]

\* The same for OBSERVED histories, where the moment a request enters the library's pending set is
\* not observable: it lies between the application's call (reqs[r].n, logged before the call) and the
\* first transmission (rtx[r].n, 0 = none yet).  A packet checked in that window may or may not find
\* the request.  Three-valued result per request: 0 = certainly unanswered, Maybe = a packet may have
\* answered it (nothing is demanded of it and nothing forbidden any more), otherwise the position of
\* the packet that certainly answered it.  A packet certainly answers r when r is certainly pending
\* (transmitted before the packet, certainly unanswered), has the longest pattern among the
\* certainly pending candidates and no possibly pending candidate has a longer one.
Maybe == 1073741822
AnsState(reqs, rtx, ans) ==
    LET F[k \in 0..Len(ans)] ==
          IF k = 0 THEN [r \in DOMAIN reqs |-> 0]
          ELSE LET prev == F[k - 1]
                   a == ans[k]
                   \* (a request issued by the handler of packet a -- reqs[r].after = a's id, its last byte --
                   \* did not exist when a was received: a is not its answer)
                   c == {r \in DOMAIN reqs : /\ prev[r] \in {0, Maybe} /\ reqs[r].sess = a.sess /\ reqs[r].n < a.n
                                              /\ IsPrefix(reqs[r].pat, a.data)
                                              /\ (reqs[r].after = 0 \/ reqs[r].after # a.data[Len(a.data)])}
                   sure == {r \in c : prev[r] = 0 /\ rtx[r].n # 0 /\ rtx[r].n < a.n}
                   top == {r \in sure : \A q \in sure : Len(reqs[q].pat) <= Len(reqs[r].pat)}
                   picks == top \cup {r \in c \ sure : \A q \in sure : Len(reqs[q].pat) < Len(reqs[r].pat)}
               IN IF picks = {} THEN prev
                  ELSE IF Cardinality(picks) = 1 /\ picks \subseteq sure
                       THEN [prev EXCEPT ![CHOOSE r \in picks : TRUE] = a.n]
                       ELSE [r \in DOMAIN reqs |-> IF r \in picks THEN Maybe ELSE prev[r]]
    IN F[Len(ans)]

NoClosedLinkTx(wire) == \A i \in DOMAIN wire : wire[i].sess # 0
NoCrossSession(wire, reqs) == \A i \in DOMAIN wire : wire[i].sess = reqs[wire[i].req].sess
NoRetryWhenReliable(wire, reliable) == reliable => \A i \in DOMAIN wire : wire[i].first
\* consecutive transmissions of one request are at least its timeout apart
Interval(wire, reqs) ==
    \A i, j \in DOMAIN wire :
        (i < j /\ wire[i].req = wire[j].req /\ ~\E k \in (i + 1)..(j - 1) : wire[k].req = wire[i].req)
            => wire[j].t >= wire[i].t + reqs[wire[i].req].tmo
=============================================================================
