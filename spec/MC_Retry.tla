---- MODULE MC_Retry ----
EXTENDS Retry
\* (h,a), (h,a,b), (h,c): shared prefixes
MCPats == << <<1, 1>>, <<1, 1, 2>>, <<1, 3>> >>
MCTmo == << 200, 300, 200 >>
MCPackets == { <<1, 1, 9>>, <<1, 1, 2, 9>>, <<1, 3>>, <<2, 1>> }
====
