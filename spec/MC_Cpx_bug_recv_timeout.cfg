SPECIFICATION Spec
CONSTANTS
  Packets <- PacketsRouteQ
  MaxPackets = 2
  NR = 2
  RFns <- RFnsRoute
  SendSets <- NoSenders
  MaxSends = 0
  Mode = "router"
  LateRegister = FALSE
  Bug = "recv_timeout"
INVARIANT TypeOK
INVARIANT CodecOK
INVARIANT ReadsOK
INVARIANT RouteOK
INVARIANT DownOK
INVARIANT UpOK
CHECK_DEADLOCK FALSE
