SPECIFICATION Spec
CONSTANTS
  Mode = "estimator"
  Rates = {500}
  Scripts <- EScripts
  Vectors <- EVectors2
  MaxData = 10
  MaxQ = 2
  Times = {100}
  LinkLoss = FALSE
  HasKalman = {TRUE}
  Bug = "none"
VIEW view
CHECK_DEADLOCK FALSE
INVARIANT TypeOK
INVARIANT PropsOK
INVARIANT NoHang
INVARIANT NoBlockLeft
