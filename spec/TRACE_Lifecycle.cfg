SPECIFICATION Spec
CONSTANTS
  P = 9
  NPar = 2
  ErFrom = 3
  LogStart = 3
  LogEnd = 5
  ParStart = 6
  NAtt = 4
  MaxFaults = 99
  FaultBy = {"sender", "driver", "cf1", "cf2"}
  MaxPings = 1000000
  UseSync = FALSE
  Closer = FALSE
CHECK_DEADLOCK FALSE
