---- MODULE MC_Commands ----
EXTENDS Commands

\* ---- argument values (exact forms, see CommandsProps) ----
Fl(b, neg, hasg, g) == [k |-> "f", b |-> b, neg |-> neg, hasg |-> hasg, g |-> g]
Zero   == Fl(<<0, 0, 0, 0>>, FALSE, TRUE, 0)
NZero  == Fl(<<0, 0, 0, 128>>, TRUE, FALSE, 0)          \* -0.0 (kept off the x-mode grid)
One    == Fl(<<0, 0, 128, 63>>, FALSE, TRUE, 8)          \* 1.0      0x3F800000
M2h    == Fl(<<0, 0, 32, 192>>, TRUE, TRUE, -20)         \* -2.5     0xC0200000
Tenth  == Fl(<<205, 204, 204, 61>>, FALSE, FALSE, 0)     \* 0.1f     0x3DCCCCCD
C100h  == Fl(<<0, 0, 201, 66>>, FALSE, TRUE, 804)        \* 100.5    0x42C90000
Seven  == Fl(<<0, 0, 224, 64>>, FALSE, TRUE, 56)         \* 7.0      0x40E00000  (> 2 pi)
MSeven == Fl(<<0, 0, 224, 192>>, TRUE, TRUE, -56)        \* -7.0
Eighth == Fl(<<0, 0, 0, 62>>, FALSE, TRUE, 1)            \* 0.125    0x3E000000
M128   == Fl(<<0, 0, 0, 195>>, TRUE, TRUE, -1024)        \* -128.0   0xC3000000
NaN    == Fl(<<0, 0, 192, 127>>, FALSE, FALSE, 0)
Inf    == Fl(<<0, 0, 128, 127>>, FALSE, FALSE, 0)
NInf   == Fl(<<0, 0, 128, 255>>, TRUE, FALSE, 0)
Sub1   == Fl(<<1, 0, 0, 0>>, FALSE, FALSE, 0)            \* smallest subnormal
MaxF   == Fl(<<255, 255, 127, 127>>, FALSE, FALSE, 0)    \* largest finite float32
Ovf    == Fl(<<>>, FALSE, FALSE, 0)                      \* e.g. 1e39: no float32 value
NOvf   == Fl(<<>>, TRUE, FALSE, 0)

In(n)  == [k |-> "i", neg |-> FALSE, b |-> NatBytes(n)]
NegI(n) == [k |-> "i", neg |-> TRUE, b |-> NatBytes(n)]
Max32  == [k |-> "i", neg |-> FALSE, b |-> <<255, 255, 255, 255>>]
Over32 == [k |-> "i", neg |-> FALSE, b |-> <<0, 0, 0, 0, 1>>]
Bt == [k |-> "b", v |-> TRUE]
Bf == [k |-> "b", v |-> FALSE]
NoneA == [k |-> "none"]
\* ex => lo % 125 = 0 (k/8 is a double); tr = trunc of the (unrounded) product
Mi(lo, ex) == [k |-> "m", fin |-> TRUE, lo |-> lo, ex |-> ex, tr |-> IF lo >= 0 \/ ex THEN lo ELSE lo + 1]
MiR(lo, tr) == [k |-> "m", fin |-> TRUE, lo |-> lo, ex |-> FALSE, tr |-> tr]   \* product rounded across an integer
MNan == [k |-> "m", fin |-> FALSE, lo |-> 0, ex |-> FALSE, tr |-> 0]
\* quaternion component: numerator n (common scale), u = floor(4096 * length of the whole argument)
Qu(n, u) == [k |-> "q", n |-> n, u |-> u]
Li(s) == [k |-> "l", v |-> s]

SeqToSet(s) == {s[i] : i \in DOMAIN s}
\* n positions filled from the sequence fs, rotated: one tuple per rotation
Diag(n, fs) == {[i \in 1..n |-> fs[((i + r) % Len(fs)) + 1]] : r \in 0..(Len(fs) - 1)}
Prod(n, S) == [1..n -> S]

ThrustsQ == {In(0), In(10001), In(65535), In(65536), NegI(1)}
ThrustsT == ThrustsQ \cup {In(1), In(60000), In(65537), Over32, NegI(65536)}
U8sQ == {In(0), In(255), In(256)}
U8sT == U8sQ \cup {In(1), In(128), NegI(1), In(65536)}
U32sQ == {In(0), In(65536), Max32, Over32}
U32sT == U32sQ \cup {In(1), In(255), In(256), In(65535), In(16777216), NegI(1)}
Bools == {Bt, Bf}
MillisQ == <<Mi(0, TRUE), Mi(1500, TRUE), Mi(-250, TRUE), Mi(1234, FALSE), Mi(-1235, FALSE), Mi(32767, FALSE)>>
MillisT == MillisQ \o <<Mi(32750, TRUE), Mi(32875, TRUE), Mi(-32769, FALSE), Mi(-32875, TRUE), Mi(32768, FALSE),
                        MNan, [Mi(1073741824, FALSE) EXCEPT !.tr = 1073741824], Mi(-1, FALSE),
                        MiR(4349, 4350), MiR(-700, -700)>>
\* <<x, y, z, w, u>>: the first eight (and the thorough extras) at scale 1; QuatsNear: nearly unit length
\* (0.1 % .. 1 % too long or too short, primitive directions, two of them with two components at 1/sqrt 2)
QuatsNear == {<<0, 0, 1, 1, 4116>>, <<1, -1, 0, 0, 4108>>, <<1, 2, 3, 4, 4059>>, <<-1, 1, -1, 1, 4126>>,
              <<0, 0, 0, 1, 4100>>}
QuatsQ == {<<0, 0, 0, 16, 65536>>, <<1, 2, 3, 4, 22434>>, <<-3, 3, -3, 3, 24576>>, <<0, 0, 0, 0, 0>>} \cup QuatsNear
QuatsT == QuatsQ \cup {<<-16, 5, 0, -7, 74407>>, <<1, 1, 0, 0, 5792>>, <<0, -1, 0, 0, 4096>>,
                       <<16, 16, 16, -16, 131072>>, <<2, -9, 9, 1, 52931>>, <<7, 0, -7, 0, 40548>>,
                       <<1, 0, 0, 16, 65663>>, <<-5, -6, -7, -8, 54029>>,
                       <<1, 2, 3, 4, 4133>>, <<1, 1, 0, 0, 4055>>, <<1, 1, 0, 0, 4137>>, <<2, -9, 9, 1, 4120>>,
                       <<0, 1, 0, -1, 4097>>, <<1, 1, 1, -1, 4080>>}
ListsQ == {<<>>, <<0>>, <<15, 1>>, <<16>>, <<0, 1, 2, 3, 4, 5, 6, 7, 8, 9, 10, 11, 12, 13, 14, 15>>}
ListsT == ListsQ \cup {<<-1>>, <<3, 7, 11>>, <<15>>, <<2, 16, 1>>}
ListsDup == {<<1, 1>>, <<15, 15>>, <<0, 3, 3>>}

FullState(ms, qs) ==
    {[i \in 1..16 |-> IF i <= 9 THEN m[i] ELSE IF i <= 13 THEN Qu(q[i - 9], q[5]) ELSE m[i - 4]] :
        m \in Diag(12, ms), q \in qs}

\* fd: sequence of floats used rotated; fp: set used in full products; gr: grid floats for x-mode
ArgsFor(fd, fp, gr, thr, u8, u32, ms, qs, ls) ==
  [c \in Cmds |->
    CASE c = "setpoint" -> {t \o <<th>> : t \in Diag(3, fd), th \in thr}
                           \cup {<<r, p, One, In(30000)>> : r \in gr, p \in gr}
      [] c = "notify_stop" -> {<<n>> : n \in u32}
      [] c \in {"stop_setpoint", "emergency_stop", "emergency_watchdog", "crash_recovery"} -> {<<>>}
      [] c \in {"velocity_world", "zdistance", "hover", "position"} -> Diag(4, fd) \cup Prod(4, fp)
      [] c = "full_state" -> FullState(ms, qs)
      [] c \in {"hl_takeoff", "hl_land"} ->
            {<<t[1], t[2], g, y>> : t \in Diag(2, fd), g \in u8, y \in fp \cup {NoneA, Ovf}}
      [] c \in {"hl_stop", "hl_group_mask"} -> {<<g>> : g \in u8}
      [] c = "hl_goto" -> {t \o <<r, l, g>> : t \in Diag(5, fd), r \in Bools, l \in Bools, g \in u8}
      [] c = "hl_spiral" ->
            {t \o <<s, w, g>> : t \in Diag(5, fd) \cup Diag(5, <<Seven, M2h, MSeven, NOvf, One, Ovf, NZero, NInf>>),
                                s \in Bools, w \in Bools, g \in u8}
      [] c = "hl_start_traj" -> {<<i, f, r, v, g>> : i \in u8, f \in fp, r \in Bools, v \in Bools, g \in u8}
      [] c = "hl_define_traj" -> {<<i, o, n, t>> : i \in u8, o \in u32, n \in u8, t \in {In(0), In(1)}}
      [] c \in {"extpos", "loc_extpos"} -> Diag(3, fd) \cup Prod(3, fp)
      [] c \in {"extpose", "loc_extpose"} -> Diag(7, fd)
      [] c = "lh_persist" -> {<<Li(g), Li(k)>> : g \in ls, k \in ls}
      [] c = "arm" -> {<<b>> : b \in Bools}
      [] c = "lpp_position" -> {<<i>> \o t : i \in u8, t \in Diag(3, fd)}
      [] c = "lpp_raw" -> {<<i, [k |-> "r", v |-> [j \in 1..n |-> (7 * j) % 256]]>> : i \in u8, n \in {0, 1, 27, 28, 29, 40}}
      [] c \in {"lpp_reboot", "lpp_mode"} -> {<<i, m>> : i \in u8, m \in u8}
      [] OTHER -> {}]

AllCmds == {"setpoint", "notify_stop", "stop_setpoint", "velocity_world", "zdistance", "hover", "full_state",
            "position", "hl_takeoff", "hl_land", "hl_stop", "hl_group_mask", "hl_goto", "hl_spiral",
            "hl_start_traj", "hl_define_traj", "extpos", "loc_extpos", "extpose", "loc_extpose",
            "emergency_stop", "emergency_watchdog", "lh_persist", "arm", "crash_recovery",
            "lpp_position", "lpp_raw", "lpp_reboot", "lpp_mode"}
AllVersions == {-1, 3, 7, 8, 9, 10}

FdQ == <<Zero, One, M2h, Tenth, NaN, Ovf>>
FdT == FdQ \o <<NZero, C100h, Inf, NInf, Sub1, MaxF, NOvf, M128>>
ArgSetsQuick == ArgsFor(FdQ, {One, M2h}, {Zero, One, M2h, C100h}, ThrustsQ, U8sQ, U32sQ, MillisQ, QuatsQ, ListsQ)
ArgSetsThorough == ArgsFor(FdT, {Zero, One, M2h, Tenth, NaN}, {Zero, One, M2h, C100h, Eighth, M128, Seven, MSeven},
                           ThrustsT, U8sT, U32sT, MillisT, QuatsT, ListsT)
\* lists with repeated base stations: the space in which "mask_add" differs from the set semantics
ArgSetsDup == [c \in Cmds |-> IF c = "lh_persist" THEN {<<Li(g), Li(<<2>>)>> : g \in ListsDup} ELSE {}]
\* simulation: thorough sets (successors are enumerated at every step, keep it moderate)
ArgSetsSim == ArgsFor(FdT, {Zero, M2h, Tenth}, {Zero, One, M2h, C100h, Eighth, M128}, ThrustsT, U8sQ, U32sQ,
                      MillisT, QuatsT, ListsT \cup ListsDup)
\* nearly-unit quaternions only: the space in which "quat_unit_shortcut" differs
ArgSetsQuatNear == [c \in Cmds |-> IF c = "full_state" THEN FullState(<<Mi(0, TRUE), Mi(1500, TRUE)>>, QuatsNear) ELSE {}]
\* a link that keeps the packet object: few arguments, every sender class (Commander, HighLevelCommander,
\* Localization, Extpos, PlatformService, LoPoAnchor), two calls in flight
DeferCmds == {"position", "stop_setpoint", "hl_takeoff", "hl_stop", "hl_goto", "hl_define_traj", "hl_spiral",
              "extpos", "arm", "lpp_mode", "notify_stop"}
ArgSetsDefer ==
  [c \in Cmds |->
    CASE c = "position" -> {<<One, M2h, Tenth, Zero>>}
      [] c = "stop_setpoint" -> {<<>>}
      [] c = "hl_takeoff" -> {<<One, M2h, In(0), NoneA>>, <<Tenth, One, In(1), M2h>>}
      [] c = "hl_stop" -> {<<In(255)>>}
      [] c = "hl_goto" -> {<<One, M2h, Tenth, Zero, One, Bt, Bf, In(0)>>, <<M2h, Tenth, One, One, Tenth, Bf, Bt, In(1)>>}
      [] c = "hl_spiral" -> {<<One, Tenth, One, M2h, One, Bt, Bf, In(0)>>, <<Ovf, Tenth, One, M2h, One, Bt, Bf, In(256)>>}
      [] c = "hl_define_traj" -> {<<In(1), In(65536), In(3), In(0)>>}
      [] c = "extpos" -> {<<One, M2h, Tenth>>}
      [] c = "arm" -> {<<Bt>>, <<Bf>>}
      [] c = "lpp_mode" -> {<<In(3), In(1)>>}
      [] c = "notify_stop" -> {<<In(0)>>, <<Over32>>}
      [] OTHER -> {}]
DeferVersions == {9}
\* thorough: more senders and arguments, both sides of the go_to switch
DeferCmdsT == DeferCmds \cup {"hl_land", "hl_start_traj", "emergency_stop", "setpoint", "full_state", "lh_persist"}
ArgSetsDeferT ==
  [c \in Cmds |->
    CASE c = "hl_land" -> {<<Tenth, One, In(1), M2h>>}
      [] c = "hl_start_traj" -> {<<In(1), One, Bf, Bt, In(0)>>, <<In(256), One, Bf, Bt, In(0)>>}
      [] c = "emergency_stop" -> {<<>>}
      [] c = "setpoint" -> {<<One, M2h, Zero, In(30000)>>, <<One, M2h, Zero, In(65536)>>}
      [] c = "full_state" -> FullState(<<Mi(0, TRUE), Mi(1500, TRUE)>>, {<<1, 2, 3, 4, 22434>>})
      [] c = "lh_persist" -> {<<Li(<<1>>), Li(<<15, 0>>)>>}
      [] c = "position" -> {<<One, M2h, Tenth, Zero>>, <<M2h, One, Zero, Tenth>>}
      [] OTHER -> ArgSetsDefer[c]]
DeferVersionsT == {7, 9}
\* other PLATFORM-port traffic: every channel x (no data, one byte, two and three bytes with first byte 0 / 1 / 2 /
\* 255 and a second byte on either side of both version switches); <<1, <<0, v>>>> would be a version answer
NoPlat == {}
PlatData == {<<>>, <<0>>, <<1>>, <<0, 1>>, <<0, 7>>, <<0, 10>>, <<1, 7>>, <<1, 10>>, <<2, 9>>, <<255, 3>>, <<0, 200, 7>>}
PlatAll == {<<c, d>> : c \in 0..3, d \in PlatData} \ {<<1, <<0, 1>>>>, <<1, <<0, 200, 7>>>>}
PlatCmds == {"hover", "velocity_world", "zdistance", "hl_goto", "hl_spiral", "position"}
ArgSetsPlat ==
  [c \in Cmds |->
    CASE c \in {"hover", "velocity_world", "zdistance", "position"} -> {<<One, M2h, Tenth, One>>}
      [] c = "hl_goto" -> {<<One, M2h, Tenth, Zero, One, Bt, Bt, In(0)>>}
      [] c = "hl_spiral" -> {<<One, Tenth, One, M2h, One, Bt, Bf, In(0)>>}
      [] OTHER -> {}]
PlatVersions == {7, 8, 9, 10}
PlatSim == {<<c, d>> : c \in 0..3, d \in {<<>>, <<0>>, <<0, 1>>, <<0, 10>>, <<1, 7>>, <<2, 9>>}} \ {<<1, <<0, 1>>>>}
LinksNow == {"now"}
LinksBoth == {"now", "later"}
Ports16 == 0..15
Chans4 == 0..3
====
