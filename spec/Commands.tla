------------------------------ MODULE Commands ------------------------------
(* Design spec of the command encoders of cflib (C08): Commander, HighLevelCommander,
   Localization/Extpos senders (incl. the short LPP transport), PlatformService arming/recovery,
   LoPoAnchor, CRTPPacket header, the size check of Crazyflie.send_packet.

   Implementation-shaped: the state is what the code keeps (PlatformService._protocolVersion,
   Commander._x_mode); every API call is one action that evaluates the code's own steps --
   admission tests, the version switch, the x-mode rotation, the saturation of spiral, the
   list -> bit mask loop, compress_quaternion, and finally struct.pack(fmt, values), modelled by
   Pack with the format characters of the code.  The encoders below are written from the code;
   CommandsProps.Layout is written from the firmware side.  TLC checks the one against the other.

   Environment: the link the packet objects are handed to.  "now" = a link that serialises inside
   its send_packet (UsbDriver, the CPX/TCP/serial, UDP and PRRT drivers); "later" = a link that keeps
   the CRTPPacket OBJECT and serialises it afterwards on its own thread (RadioDriver: out_queue of
   Cap = 1 objects, the radio thread reads pk.header / pk.data when it gets to it).  With such a link
   a call is two steps of the caller -- Build (the packet object is created and written) and Hand
   (link.send_packet: blocks while the queue is full) -- and Ser is the link thread's step; what the
   command emitted is what Ser reads from the object.  Packet objects have identity (heap).

   Bug selects named defects (vacuity guards / regressions):
     "none" | "pitch_sign" | "legacy_threshold" | "thrust_clip" | "goto_order" | "mask_add"
     | "hl_shared_packet" | "quat_unit_shortcut" | "version_demorgan"
   "mask_add" is the behaviour of the code as found (mask += 1 << bs, wrong for duplicates).
   "hl_shared_packet": HighLevelCommander keeps one CRTPPacket and only replaces its data.
   "version_demorgan": PlatformService._platform_callback returns early only when the channel is not the
   version channel AND the first byte is not VERSION_GET_PROTOCOL: every other PLATFORM-port packet with
   channel 1 or first byte 0 overwrites the stored protocol version.
   "quat_unit_shortcut": compress_quaternion skips the normalisation when the argument's length is
   within 1 % of 1 (the argument records carry u = floor(4096 * length) for this). *)
EXTENDS Integers, Sequences, FiniteSets, TLC

CONSTANTS Versions,       \* protocol versions the platform service may report
          Cmds,           \* command names exercised
          ArgSets,        \* [cmd -> set of argument tuples]
          HdrPorts, HdrChans,
          PlatPackets,    \* other traffic the firmware may send on the PLATFORM port: set of <<channel, data>>
          Links,          \* kinds of link the environment may attach: subset of {"now", "later"}
          Cap,            \* capacity of the "later" link's queue of packet objects (RadioDriver: 1)
          Chained,        \* FALSE: a call starts from the idle state only (model checking: calls do not
                          \* influence each other); TRUE: calls may follow each other directly (traces)
          Bug

P == INSTANCE CommandsProps

VARIABLES ver,            \* PlatformService._protocolVersion
          nver,           \* environment / history: the version the firmware answered the protocol-version request with
          xmode,          \* Commander._x_mode
          link,           \* environment: kind of link attached to the Crazyflie
          building,       \* "later" link: the call that has written its packet object and not yet handed it over
          pend,           \* "later" link: queue of [call, obj] -- packet objects kept by the link
          heap,           \* packet objects: heap[o + 1] = what object o holds now ([h, data])
          last            \* history: the last emission (record of CommandsProps) or header event

vars == <<ver, nver, xmode, link, building, pend, heap, last>>
envvars == <<link, building, pend, heap>>

None == [kind |-> "none"]
NoPk == [h |-> -1, data |-> <<>>]
NoCall == [call |-> None, obj |-> -1]
Idle == building.obj = -1

\* ------------------------------------------------------------------ values handed to struct.pack
NatBytes(n) == IF n < 256 THEN <<n>>
               ELSE IF n < 65536 THEN <<n % 256, n \div 256>>
               ELSE IF n < 16777216 THEN <<n % 256, (n \div 256) % 256, n \div 65536>>
               ELSE <<n % 256, (n \div 256) % 256, (n \div 65536) % 256, n \div 16777216>>
I(n)   == [k |-> "i", neg |-> FALSE, b |-> NatBytes(n)]      \* a Python int >= 0
Z(v)   == [k |-> "z", v |-> v]                                \* a small signed Python int
Raw(b) == [k |-> "raw", b |-> b]                              \* a 32-bit unsigned given as bytes
NegF(a) == [a EXCEPT !.b = IF a.b = <<>> THEN <<>> ELSE P!FlipSign(a.b), !.neg = ~a.neg]

\* struct.pack of one value: [ok, b]; ok = FALSE models struct.error / OverflowError
PackOne(c, v) ==
    CASE c = "B" -> IF v.k = "b" THEN [ok |-> TRUE, b |-> <<IF v.v THEN 1 ELSE 0>>]
                    ELSE [ok |-> ~v.neg /\ Len(v.b) <= 1, b |-> P!Pad(v.b, 1)]
      [] c = "?" -> [ok |-> TRUE, b |-> <<IF v.v THEN 1 ELSE 0>>]
      [] c = "H" -> [ok |-> ~v.neg /\ Len(v.b) <= 2, b |-> P!Pad(v.b, 2)]
      [] c = "I" -> IF v.k = "raw" THEN [ok |-> TRUE, b |-> v.b]
                    ELSE [ok |-> ~v.neg /\ Len(v.b) <= 4, b |-> P!Pad(v.b, 4)]
      [] c = "h" -> LET u == IF v.v < 0 THEN v.v + 65536 ELSE v.v IN
                    [ok |-> v.v >= -32768 /\ v.v <= 32767, b |-> <<u % 256, (u \div 256) % 256>>]
      [] c = "f" -> IF v.k = "i" THEN [ok |-> v.b = <<0>>, b |-> <<0, 0, 0, 0>>]   \* only int 0 occurs
                    ELSE [ok |-> v.b # <<>>, b |-> v.b]
      [] OTHER -> [ok |-> FALSE, b |-> <<>>]

Pack(fmt, vals) ==
    LET F[i \in 0..Len(fmt)] ==
          IF i = 0 THEN [ok |-> TRUE, b |-> <<>>]
          ELSE LET p == F[i - 1] o == PackOne(fmt[i], vals[i]) IN
               [ok |-> p.ok /\ o.ok, b |-> p.b \o o.b]
    IN F[Len(fmt)]

\* results of a call
Raised == [out |-> "raised", pks |-> <<>>]
Quiet  == [out |-> "none", pks |-> <<>>]
\* CRTPPacket.header = port << 4 | 3 << 2 | channel ; Crazyflie.send_packet refuses > 30 bytes
Header(p, c) == (p % 16) * 16 + 12 + (c % 4)
Send(p, c, pk) == IF ~pk.ok \/ Len(pk.b) > 30 THEN Raised
                  ELSE [out |-> "sent", pks |-> <<[h |-> Header(p, c), data |-> pk.b]>>]

\* ------------------------------------------------------------------ float32 of a small rational
\* float32 bytes of (+/-) num/den, correctly rounded; num > 0, den > 0, 2^-8 < num/den < 2^8
F32Rat(neg, num, den) ==
    LET up   == CHOOSE s \in 0..8 : num * P!Pow2(s) >= den /\ (s = 0 \/ num * P!Pow2(s - 1) < den)
        down == IF num < 2 * den THEN 0 ELSE CHOOSE s \in 1..8 : num < den * P!Pow2(s + 1) /\ num >= den * P!Pow2(s)
        n == num * P!Pow2(up)
        d == den * P!Pow2(down)                 \* d <= n < 2d
        e == down - up
        D[i \in 0..23] == IF i = 0 THEN [f |-> 0, r |-> n - d]
                          ELSE LET prev == D[i - 1]          \* one reference: TLC does not memoise
                                   r2 == 2 * prev.r IN
                               IF r2 >= d THEN [f |-> 2 * prev.f + 1, r |-> r2 - d]
                                          ELSE [f |-> 2 * prev.f, r |-> r2]
        last23 == D[23]
        f0 == last23.f
        r0 == last23.r
        rup == 2 * r0 > d \/ (2 * r0 = d /\ f0 % 2 = 1)
        f1 == IF rup THEN f0 + 1 ELSE f0
        ee == IF f1 = 8388608 THEN e + 1 ELSE e
        f == IF f1 = 8388608 THEN 0 ELSE f1
        E == ee + 127
    IN << f % 256, (f \div 256) % 256, (E % 2) * 128 + f \div 65536, (IF neg THEN 128 ELSE 0) + E \div 2 >>

\* 0.707 * (d/8), then optionally negated: the bytes struct.pack('<f', .) produces
XRot(d, negate) ==
    IF d = 0 THEN (IF negate THEN <<0, 0, 0, 128>> ELSE <<0, 0, 0, 0>>)
    ELSE F32Rat((d < 0) # negate, 707 * P!Abs(d), 8000)
FloatOfBytes(b, neg) == [k |-> "f", b |-> b, neg |-> neg, hasg |-> FALSE, g |-> 0]

\* ------------------------------------------------------------------ compress_quaternion
\* mag = int(511 * (|q|/|quat|) / M_SQRT1_2 + 0.5)  =  the m with  m - 1/2 <= 511*sqrt(2)*|k|/sqrt(n) < m + 1/2
QMag(k, n) == CHOOSE m \in 0..512 :
                 /\ (m = 0 \/ (2 * m - 1) * (2 * m - 1) * n <= 4 * P!C2 * k * k)
                 /\ (2 * m + 1) * (2 * m + 1) * n > 4 * P!C2 * k * k
\* u = floor(4096 * |quat|).  "quat_unit_shortcut": a nearly-unit argument is used as it is, the magnitude is
\* 511*sqrt(2)*|q_i| of the unnormalised component (here: the normalised magnitude scaled by u/4096, +-1) and
\* is OR-ed into the 10-bit group: 512 and more lands in the sign bit
Compress(k, u) ==
    LET n == k[1] * k[1] + k[2] * k[2] + k[3] * k[3] + k[4] * k[4]
        big(i) == \A j \in 1..4 : (P!Abs(k[j]) < P!Abs(k[i])) \/ (P!Abs(k[j]) = P!Abs(k[i]) /\ j >= i)
        l == CHOOSE i \in 1..4 : big(i)                    \* first index with the largest magnitude
        negate == k[l] < 0
        others == SelectSeq(<<1, 2, 3, 4>>, LAMBDA i : i # l)
        shortcut == Bug = "quat_unit_shortcut" /\ u >= 4056 /\ u <= 4136
        mag(i) == IF shortcut THEN (2 * QMag(P!Abs(k[i]), n) * u + 4096) \div 8192 ELSE QMag(P!Abs(k[i]), n)
        grp(i) == IF mag(i) >= 512 THEN mag(i)             \* (negbit << 9) | mag
                  ELSE (IF (k[i] < 0) # negate THEN 512 ELSE 0) + mag(i)
        f1 == grp(others[1])  f2 == grp(others[2])  f3 == grp(others[3])
        lo == (f2 % 64) * 1024 + f3
        hi == (l - 1) * 16384 + f1 * 16 + f2 \div 64
    IN <<lo % 256, lo \div 256, hi % 256, hi \div 256>>

\* int(x * 1000): the IEEE product RN(1000 x) truncated toward zero.  a.tr is that integer (the harness
\* derives it from the exact rational 1000 x by one correct rounding); RN moves the exact product by
\* less than one unit, so tr is floor or floor + 1 -- anything else is not this code
Milli(a) == a.tr
MilliSane(a) == a.fin => (a.tr = a.lo \/ (~a.ex /\ a.tr = a.lo + 1))

\* ------------------------------------------------------------------ the encoders (one per API call)
F4 == <<"B", "f", "f", "f", "f">>
LegacyGeneric(v) == IF Bug = "legacy_threshold" THEN v < 8 ELSE v <= 8

Encode(cmd, v, x, a) ==
  CASE cmd = "setpoint" ->
         \* if thrust > 0xFFFF or thrust < 0: raise ValueError
         IF (a[4].neg \/ Len(a[4].b) > 2) /\ Bug # "thrust_clip" THEN Raised
         ELSE LET thrust == IF a[4].neg THEN I(0) ELSE IF Len(a[4].b) > 2 THEN I(65535) ELSE a[4]
                  roll  == IF x THEN FloatOfBytes(XRot(a[1].g - a[2].g, FALSE), FALSE) ELSE a[1]
                  pitch == IF x THEN FloatOfBytes(XRot(a[1].g + a[2].g, FALSE), FALSE) ELSE a[2]
              IN Send(3, 0, Pack(<<"f", "f", "f", "H">>,
                                 <<roll, IF Bug = "pitch_sign" THEN pitch ELSE NegF(pitch), a[3], thrust>>))
    [] cmd = "notify_stop" -> Send(7, 1, Pack(<<"B", "I">>, <<I(0), a[1]>>))
    [] cmd = "stop_setpoint" -> Send(7, 0, Pack(<<"B">>, <<I(0)>>))
    [] cmd = "velocity_world" ->
         IF LegacyGeneric(v) THEN Send(7, 0, Pack(F4, <<I(1), a[1], a[2], a[3], NegF(a[4])>>))
                             ELSE Send(7, 0, Pack(F4, <<I(8), a[1], a[2], a[3], a[4]>>))
    [] cmd = "zdistance" ->
         IF LegacyGeneric(v) THEN Send(7, 0, Pack(F4, <<I(2), a[1], a[2], NegF(a[3]), a[4]>>))
                             ELSE Send(7, 0, Pack(F4, <<I(9), a[1], a[2], a[3], a[4]>>))
    [] cmd = "hover" ->
         IF LegacyGeneric(v) THEN Send(7, 0, Pack(F4, <<I(5), a[1], a[2], NegF(a[3]), a[4]>>))
                             ELSE Send(7, 0, Pack(F4, <<I(10), a[1], a[2], a[3], a[4]>>))
    [] cmd = "full_state" ->
         \* vector_to_mm_16bit raises on nan/inf; compress_quaternion raises on the zero quaternion
         LET ms == <<1, 2, 3, 4, 5, 6, 7, 8, 9, 14, 15, 16>>
             k == <<a[10].n, a[11].n, a[12].n, a[13].n>>
         IN IF \E i \in DOMAIN ms : ~a[ms[i]].fin THEN Raised
            ELSE IF k = <<0, 0, 0, 0>> THEN Raised
            ELSE Send(7, 0, Pack(<<"B", "h", "h", "h", "h", "h", "h", "h", "h", "h", "I", "h", "h", "h">>,
                     <<I(6), Z(Milli(a[1])), Z(Milli(a[2])), Z(Milli(a[3])), Z(Milli(a[4])),
                       Z(Milli(a[5])), Z(Milli(a[6])), Z(Milli(a[7])), Z(Milli(a[8])), Z(Milli(a[9])),
                       Raw(Compress(k, a[10].u)), Z(Milli(a[14])), Z(Milli(a[15])), Z(Milli(a[16]))>>))
    [] cmd = "position" -> Send(7, 0, Pack(F4, <<I(7), a[1], a[2], a[3], a[4]>>))
    [] cmd \in {"hl_takeoff", "hl_land"} ->
         \* args: height, duration, group_mask, yaw ; yaw None -> target_yaw 0.0, useCurrentYaw True
         LET none == a[4].k = "none"
             yaw == IF none THEN FloatOfBytes(<<0, 0, 0, 0>>, FALSE) ELSE a[4]
         IN Send(8, 0, Pack(<<"B", "B", "f", "f", "?", "f">>,
                            <<I(IF cmd = "hl_takeoff" THEN 7 ELSE 8), a[3], a[1], yaw,
                              [k |-> "b", v |-> none], a[2]>>))
    [] cmd = "hl_stop" -> Send(8, 0, Pack(<<"B", "B">>, <<I(3), a[1]>>))
    [] cmd = "hl_group_mask" -> Send(8, 0, Pack(<<"B", "B">>, <<I(0), a[1]>>))
    [] cmd = "hl_goto" ->
         \* args: x, y, z, yaw, duration, relative, linear, group_mask
         IF v < 8
         THEN Send(8, 0, Pack(<<"B", "B", "B", "f", "f", "f", "f", "f">>,
                              <<I(4), a[8], a[6], a[1], a[2], a[3], a[4], a[5]>>))
         ELSE IF Bug = "goto_order"
         THEN Send(8, 0, Pack(<<"B", "B", "B", "B", "f", "f", "f", "f", "f">>,
                              <<I(12), a[8], a[7], a[6], a[1], a[2], a[3], a[4], a[5]>>))
         ELSE Send(8, 0, Pack(<<"B", "B", "B", "B", "f", "f", "f", "f", "f">>,
                              <<I(12), a[8], a[6], a[7], a[1], a[2], a[3], a[4], a[5]>>))
    [] cmd = "hl_spiral" ->
         \* args: angle, r0, rF, ascent, duration, sideways, clockwise, group_mask
         IF v < 8 THEN Quiet
         ELSE LET big(f) == f.b = <<>> \/ (~P!IsNaN(f.b) /\ P!Mag(f.b) > P!Mag(P!TwoPi))
                  angle == IF big(a[1]) /\ ~a[1].neg THEN FloatOfBytes(P!TwoPi, FALSE)
                           ELSE IF big(a[1]) /\ a[1].neg THEN FloatOfBytes(P!FlipSign(P!TwoPi), TRUE)
                           ELSE a[1]
                  isneg(f) == f.neg /\ (f.b = <<>> \/ (~P!IsNaN(f.b) /\ ~P!IsZero(f.b)))
                  r0 == IF isneg(a[2]) THEN I(0) ELSE a[2]
                  rF == IF isneg(a[3]) THEN I(0) ELSE a[3]
              IN Send(8, 0, Pack(<<"B", "B", "B", "B", "f", "f", "f", "f", "f">>,
                                 <<I(11), a[8], a[6], a[7], angle, r0, rF, a[4], a[5]>>))
    [] cmd = "hl_start_traj" ->
         \* args: trajectory_id, time_scale, relative, reversed, group_mask
         Send(8, 0, Pack(<<"B", "B", "B", "B", "B", "f">>, <<I(5), a[5], a[3], a[4], a[1], a[2]>>))
    [] cmd = "hl_define_traj" ->
         \* args: trajectory_id, offset, n_pieces, type
         Send(8, 0, Pack(<<"B", "B", "B", "B", "I", "B">>, <<I(6), a[1], I(1), a[4], a[2], a[3]>>))
    [] cmd \in {"extpos", "loc_extpos"} -> Send(6, 0, Pack(<<"f", "f", "f">>, <<a[1], a[2], a[3]>>))
    [] cmd \in {"extpose", "loc_extpose"} ->
         Send(6, 1, Pack(<<"B", "f", "f", "f", "f", "f", "f", "f">>,
                         <<I(8), a[1], a[2], a[3], a[4], a[5], a[6], a[7]>>))
    [] cmd = "emergency_stop" -> Send(6, 1, Pack(<<"B">>, <<I(3)>>))
    [] cmd = "emergency_watchdog" -> Send(6, 1, Pack(<<"B">>, <<I(4)>>))
    [] cmd = "lh_persist" ->
         \* sort; first/last outside 0..15 -> raise; mask = for bs in list: mask |= 1 << bs
         LET bad(l) == \E i \in DOMAIN l : l[i] < 0 \/ l[i] > 15
             cnt(l, b) == Cardinality({i \in DOMAIN l : l[i] = b})
             sum(l) == LET F[b \in -1..15] == IF b = -1 THEN 0 ELSE F[b - 1] + cnt(l, b) * P!Pow2(b) IN F[15]
             mask(l) == IF Bug = "mask_add" THEN sum(l) ELSE P!MaskOf(P!Range(l))
         IN IF bad(a[1].v) \/ bad(a[2].v) THEN Raised
            ELSE IF mask(a[1].v) > 65535 \/ mask(a[2].v) > 65535 THEN Raised
            ELSE Send(6, 1, Pack(<<"B", "H", "H">>, <<I(11), I(mask(a[1].v)), I(mask(a[2].v))>>))
    [] cmd = "arm" -> Send(13, 0, Pack(<<"B", "B">>, <<I(1), a[1]>>))
    [] cmd = "crash_recovery" -> Send(13, 0, Pack(<<"B">>, <<I(2)>>))
    [] cmd = "lpp_position" ->
         Send(6, 1, Pack(<<"B", "B", "B", "f", "f", "f">>, <<I(2), a[1], I(1), a[2], a[3], a[4]>>))
    [] cmd = "lpp_raw" ->
         \* send_short_lpp_packet: struct.pack('<BB', 2, dest_id) + data
         LET hd == Pack(<<"B", "B">>, <<I(2), a[1]>>) IN Send(6, 1, [ok |-> hd.ok, b |-> hd.b \o a[2].v])
    [] cmd = "lpp_reboot" -> Send(6, 1, Pack(<<"B", "B", "B", "B">>, <<I(2), a[1], I(2), a[2]>>))
    [] cmd = "lpp_mode" -> Send(6, 1, Pack(<<"B", "B", "B", "B">>, <<I(2), a[1], I(3), a[2]>>))
    [] OTHER -> Quiet

\* x-mode needs the grid form of roll and pitch (the model does not do IEEE arithmetic on bytes)
Modelled(cmd, x, a) == /\ (cmd = "setpoint" /\ x) => (a[1].hasg /\ a[2].hasg)
                       /\ cmd = "full_state" => \A i \in {1, 2, 3, 4, 5, 6, 7, 8, 9, 14, 15, 16} : MilliSane(a[i])

\* ------------------------------------------------------------------ actions
Init == /\ ver = -1 /\ nver = -1 /\ xmode = FALSE /\ last = None
        /\ link = "now" /\ building = NoCall /\ pend = <<>> /\ heap = [i \in 1..(Cap + 2) |-> NoPk]

\* PlatformService._platform_callback stores the version byte reported by the firmware
\* (the firmware's answer: PLATFORM port, channel 1 = VERSION_COMMAND, data (VERSION_GET_PROTOCOL = 0, v); v = -1:
\* the link-service answer of a firmware without protocol versioning)
SetVersion(v) == Idle /\ ver' = v /\ nver' = v /\ UNCHANGED xmode /\ last' = None /\ UNCHANGED envvars
\* environment: any other packet on the PLATFORM port reaches _platform_callback too (echo of
\* set_continous_wave: channel 0, data (0, enabled); arming / crash-recovery answers: channel 0, first byte 1 / 2;
\* firmware-version answer: channel 1, first byte 1; app-channel data: channel 2, anything).  d = the data bytes.
\* data[0] / data[1] of a shorter packet raise IndexError inside the callback (the dispatcher logs it): nothing stored.
\* A protocol-version answer among them (channel 1, first byte 0, two bytes) arrives outside a fetch: since
\* repair 11c63c8 PlatformService hands the platform information over once per fetch and ignores
\* duplicated / late answers, so it is no negotiation and changes nothing (SetVersion is the complete
\* fetch + answer).  Bug "version_unsolicited" is the behaviour before that repair.
IsVersionAnswer(ch, d) == ch = 1 /\ Len(d) >= 2 /\ d[1] = 0
PlatformPacket(ch, d) ==
    /\ Idle
    /\ LET takes == IF Bug = "version_demorgan" THEN ch = 1 \/ (Len(d) >= 1 /\ d[1] = 0)
                    ELSE IF Bug = "version_unsolicited" THEN ch = 1 /\ Len(d) >= 1 /\ d[1] = 0
                    ELSE FALSE
       IN ver' = IF takes /\ Len(d) >= 2 THEN d[2] ELSE ver
    /\ nver' = nver
    /\ last' = None /\ UNCHANGED xmode /\ UNCHANGED envvars
\* Commander.set_client_xmode
SetXMode(b) == Idle /\ xmode' = b /\ UNCHANGED <<ver, nver>> /\ last' = None /\ UNCHANGED envvars
\* environment: another kind of link is attached (between connections: nothing is queued)
SetLink(m) == /\ Idle /\ pend = <<>> /\ m # link
              /\ link' = m /\ last' = None /\ UNCHANGED <<ver, nver, xmode, building, pend, heap>>

\* the emission is judged under the NEGOTIATED version (nver); the encoders look at the stored one (ver)
EmRec(kind, cmd, a, out, pks) == [kind |-> kind, cmd |-> cmd, ver |-> nver, xmode |-> xmode, args |-> a,
                                  out |-> out, pks |-> pks]

\* a call on a link that serialises inside send_packet
Call(cmd, a) ==
    /\ link = "now" /\ Idle
    /\ Chained \/ last = None
    /\ Modelled(cmd, xmode, a)
    /\ LET r == Encode(cmd, ver, xmode, a) IN last' = EmRec("cmd", cmd, a, r.out, r.pks)
    /\ UNCHANGED <<ver, nver, xmode>> /\ UNCHANGED envvars

\* ---- a link that keeps the packet object ("later")
HLCmds == {"hl_takeoff", "hl_land", "hl_stop", "hl_group_mask", "hl_goto", "hl_spiral", "hl_start_traj",
           "hl_define_traj"}
\* every encoder does pk = CRTPPacket(): an object nobody else refers to
ObjFor(cmd) == IF Bug = "hl_shared_packet" /\ cmd \in HLCmds THEN 0
               ELSE CHOOSE o \in 1..(Cap + 1) : \A i \in DOMAIN pend : pend[i].obj # o
\* caller, step 1: arguments checked, packet object created and written (pk.port/channel/data = ...)
Build(cmd, a) ==
    /\ link = "later" /\ Idle
    /\ Chained \/ last = None
    /\ Modelled(cmd, xmode, a)
    /\ LET r == Encode(cmd, ver, xmode, a) IN
       IF r.pks = <<>>                                   \* raised, or nothing to send: the call is over
       THEN last' = EmRec("cmd", cmd, a, r.out, <<>>) /\ UNCHANGED <<building, heap>>
       ELSE LET o == ObjFor(cmd) IN
            /\ heap' = [heap EXCEPT ![o + 1] = r.pks[1]]
            /\ building' = [call |-> EmRec("cmd", cmd, a, r.out, <<>>), obj |-> o]
            /\ last' = None
    /\ UNCHANGED <<ver, nver, xmode, link, pend>>
\* caller, step 2: link.send_packet(pk) = out_queue.put(pk): waits while the queue is full
Hand == /\ ~Idle /\ Len(pend) < Cap
        /\ pend' = Append(pend, building) /\ building' = NoCall
        /\ last' = [building.call EXCEPT !.kind = "queued"]
        /\ UNCHANGED <<ver, nver, xmode, link, heap>>
\* link thread: takes the oldest object and serialises what it holds NOW: this is the emission of that call
Ser == /\ pend # <<>>
       /\ Chained \/ last = None
       /\ last' = [pend[1].call EXCEPT !.pks = <<heap[pend[1].obj + 1]>>]
       /\ pend' = Tail(pend)
       \* the link drops its reference; an object nobody refers to any more is garbage
       /\ LET o == pend[1].obj IN
          heap' = IF building.obj = o \/ (\E i \in 2..Len(pend) : pend[i].obj = o) \/ o = 0 THEN heap
                  ELSE [heap EXCEPT ![o + 1] = NoPk]
       /\ UNCHANGED <<ver, nver, xmode, link, building>>
\* Build and Hand in one step (the trace events have this grain; not part of Next)
CallLater(cmd, a) ==
    /\ link = "later" /\ Idle
    /\ Modelled(cmd, xmode, a)
    /\ LET r == Encode(cmd, ver, xmode, a) IN
       IF r.pks = <<>>
       THEN last' = EmRec("cmd", cmd, a, r.out, <<>>) /\ UNCHANGED <<pend, heap>>
       ELSE LET o == ObjFor(cmd) IN
            /\ Len(pend) < Cap
            /\ heap' = [heap EXCEPT ![o + 1] = r.pks[1]]
            /\ pend' = Append(pend, [call |-> EmRec("cmd", cmd, a, r.out, <<>>), obj |-> o])
            /\ last' = EmRec("queued", cmd, a, r.out, <<>>)
    /\ UNCHANGED <<ver, nver, xmode, link, building>>

\* CRTPPacket: port/channel setters -> header byte
MakeHeader(p, c) == /\ Idle
                    /\ Chained \/ last = None
                    /\ last' = [kind |-> "hdr", port |-> p, chan |-> c, h |-> Header(p, c)]
                    /\ UNCHANGED <<ver, nver, xmode>> /\ UNCHANGED envvars

Return == last # None /\ last' = None /\ UNCHANGED <<ver, nver, xmode>> /\ UNCHANGED envvars

Next == \/ Return
        \/ \E v \in Versions : SetVersion(v)
        \/ \E p \in PlatPackets : PlatformPacket(p[1], p[2])
        \/ \E b \in BOOLEAN : SetXMode(b)
        \/ \E m \in Links : SetLink(m)
        \/ \E c \in Cmds : \E a \in ArgSets[c] : Call(c, a) \/ Build(c, a)
        \/ Hand
        \/ Ser
        \/ \E p \in HdrPorts, c \in HdrChans : MakeHeader(p, c)

Spec == Init /\ [][Next]_vars

\* ------------------------------------------------------------------ properties (C08)
\* kind "cmd" = a finished emission: the call is over and everything it handed to the link is serialised
EmissionsOK == last.kind = "cmd" => P!EmissionOK([cmd |-> last.cmd, ver |-> last.ver, xmode |-> last.xmode,
                                                  args |-> last.args, out |-> last.out, pks |-> last.pks])
HeadersOK == last.kind = "hdr" => P!HeaderClause(last.port, last.chan, last.h) = "ok"
\* design-level fact beyond the property (never the verdict on the code): a call whose arguments
\* all have a wire value is sent
RepresentableIsSent == last.kind \in {"cmd", "queued"} =>
    LET lay == P!Layout(last.cmd, last.ver, last.xmode) IN
    (lay.ok /\ (\A i \in DOMAIN lay.f : P!CanEncode(lay.f[i], last.args))
            /\ P!TotalWidth(lay.f, last.args) <= 30) => last.out = "sent"
\* design-level: other PLATFORM traffic never changes the stored version
VersionKept == ver = nver
TypeOK == /\ ver \in Versions \cup {-1} /\ xmode \in BOOLEAN /\ last.kind \in {"none", "cmd", "queued", "hdr"}
          /\ link \in Links \cup {"now"} /\ Len(pend) <= Cap /\ building.obj \in -1..(Cap + 1)
          /\ (link = "now" => pend = <<>> /\ Idle)
=============================================================================
