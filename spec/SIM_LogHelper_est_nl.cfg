SPECIFICATION Spec
CONSTANTS
  Mode = "estimator"
  Rates = {500}
  Scripts <- EScripts
  Vectors <- EVectors
  MaxData = 14
  MaxQ = 3
  Times = {100, 130, 250}
  LinkLoss = FALSE
  HasKalman = {TRUE, FALSE}
  Bug = "none"
CHECK_DEADLOCK FALSE
