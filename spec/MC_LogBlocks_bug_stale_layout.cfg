SPECIFICATION Spec
CONSTANTS
  NC = 1
  TocC <- TocShort
  VarAlpha <- AlphaStale
  BasicAlpha <- BasicOne
  MaxFree = 1
  MaxBasic = 1
  MaxUniform = 1
  Periods = {100}
  Statuses = {}
  MaxOps = 5
  MaxFaults = 0
  MaxData = 2
  MaxLate = 1
  TocAlts = {}
  IdMod = 255
  Bugs = {"stale_layout"}
  WithSync = FALSE
INVARIANT ObsOK
INVARIANT TypeOK
CHECK_DEADLOCK FALSE
