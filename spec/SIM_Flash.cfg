SPECIFICATION Spec
CONSTANTS
  Chunk = 25
  MaxRetry = 5
  Targets = {255, 254}
  PageSizes = {1, 2, 3, 5, 8, 24, 25, 26, 50, 51, 60}
  BufCounts = {1, 2, 3, 4}
  FlashSizes = {1, 2, 3, 4, 6, 9, 12}
  MaxLen = 400
  Fates = {"ok", "okdup", "nack", "lostcmd", "lostreply", "stray"}
  Bug = "none"
  Observe = TRUE
INVARIANT PropOK
INVARIANT TypeOK
INVARIANT FlashedWhenDone
INVARIANT NothingOutside
CHECK_DEADLOCK FALSE
