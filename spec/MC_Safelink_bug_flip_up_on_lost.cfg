SPECIFICATION Spec
CONSTANTS
  NUp = 2
  NDown = 2
  Retries = 3
  NegAttempts = 10
  MaxLoss = 5
  MaxNegLoss = 2
  MaxRestarts = 0
  MaxSlow = 0
  PeerModes <- ModesAll
  DenyReplies <- DenyOne
  AckTails <- TailsRssi
  Bug = "flip_up_on_lost"
INVARIANT PropertyHolds
INVARIANT CompleteAtRest
CHECK_DEADLOCK FALSE
