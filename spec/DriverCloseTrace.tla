------------------------------ MODULE DriverCloseTrace ------------------------------
(* Trace spec for the driver-level part of C10 (closed links).  One TLC run judges a whole batch
   of traces recorded from the real UsbDriver / RadioDriver / TcpDriver / UdpDriver on scripted
   devices (harness/props/C10_drivers.py): Init picks a trace, one event per step.

   Events (all carry an integer a):
     connb / conn(a = 1 returned, 0 raised; hd, q)     connect()
     send(a = request) / sent(a; hd, q)                 send_packet()
     closeb(f = fault armed, cb = 1 if called by the link-error callback) / close(a, cb; hd, q)
     wr(a = request carried or 0; o = "A" acknowledged / "L" lost)    the device took a write
     wx(a)        the device refused a write (unplugged): nothing transmitted
     ack          radio: the comm thread looks at the result of its last transfer
     og(a)        radio: the comm thread took request a (0 = nothing) from out_queue
     rd / rr      usb: the comm thread starts a read / the read comes back (timeout or data)
     lerr         link error reported by the comm thread;  lerru: reported to the caller of send_packet
     unplug, jam, down, rx, end                          environment / bookkeeping
   hd = 1 if the object holds a device handle after the call, q = content of out_queue.

   monitor  (the verdict): DriverCloseProps!MonStep / EvClause over the events, nothing else.
   conform  (the binding): the same events must be explained by the actions of DriverClose.tla
            (Bug = "none"); the projections hd and q must agree with the design state.           *)
EXTENDS Naturals, Sequences, FiniteSets, TLC, Json, IOUtils

Traces == JsonDeserialize(IOEnv.TRACE_FILE)

VARIABLES tid, l, m, bad, badAt, conf, confAt,
          kind, cbcl, sl, upc, cbc, handle, fresh, thr, sp, tpc, cur, hs, outq, dev, jam, fault, owed,
          req, sess, nreq, nops, nidle, lostrow, nerr, lasto, h, mon

\* constants of the design spec: no bounds; the numbers the harness uses
Kinds == {"usb", "tcp", "udp", "radio"}
CbModes == BOOLEAN
SlModes == BOOLEAN
Bug == "none"
Faults == {"none", "f1", "f2"}
MaxOps == 1000000
MaxSess == 1000000
MaxReq == 1000000
MaxIdle == 1000000
MaxErr == 1000000
HsMax == 10
Retries == 3
JamLen == 4
KeepHistory == FALSE

D == INSTANCE DriverClose
P == INSTANCE DriverCloseProps

specvars == <<kind, cbcl, sl, upc, cbc, handle, fresh, thr, sp, tpc, cur, hs, outq, dev, jam, fault, owed,
              req, sess, nreq, nops, nidle, lostrow, nerr, lasto, h, mon>>
T == Traces[tid]
Ev == T.ev[l]
EvP == [e |-> Ev.e, a |-> Ev.a]

Init == /\ tid \in 1..Len(Traces) /\ l = 1
        /\ m = P!M0 /\ bad = "ok" /\ badAt = 0 /\ conf = TRUE /\ confAt = 0
        /\ kind = Traces[tid].kind /\ cbcl = Traces[tid].cb /\ sl = Traces[tid].sl
        /\ upc = "idle" /\ cbc = "idle" /\ handle = FALSE /\ fresh = TRUE
        /\ thr = "none" /\ sp = FALSE /\ tpc = "tx" /\ cur = 0 /\ hs = 0 /\ outq = <<>>
        /\ dev = "ok" /\ jam = 0 /\ fault = "none" /\ owed = FALSE
        /\ req = 0 /\ sess = 0 /\ nreq = 0 /\ nops = 0 /\ nidle = 0 /\ lostrow = 0
        /\ lasto = "A" /\ nerr = 0 /\ h = <<>> /\ mon = [m |-> P!M0, c |-> "ok"]

Conform(A) == IF conf /\ ENABLED A
              THEN A /\ UNCHANGED <<conf, confAt>>
              ELSE /\ conf' = FALSE /\ confAt' = (IF conf THEN l ELSE confAt)
                   /\ UNCHANGED specvars
Skip == UNCHANGED <<conf, confAt, specvars>>

Hd == Ev.hd = 1
\* the design-spec action that explains the event
Explained ==
    CASE Ev.e = "connb"  -> Conform(D!ConnB)
      [] Ev.e = "conn"   -> Conform(D!ConnE /\ Ev.a = (IF upc = "conn" THEN 1 ELSE 0) /\ handle = Hd)
      [] Ev.e = "send"   -> Conform(D!SendB /\ Ev.a = nreq + 1)
      [] Ev.e = "sent"   -> Conform(D!SendE /\ Ev.a = req /\ outq' = Ev.q /\ handle = Hd)
      [] Ev.e = "closeb" -> IF Ev.cb = 1 THEN Conform(D!CbCloseB) ELSE Conform(D!CloseB(Ev.f))
      [] Ev.e = "close"  -> IF Ev.cb = 1
                            THEN Conform(D!CbCloseE /\ Ev.a = 1 /\ handle' = Hd /\ outq' = Ev.q)
                            ELSE Conform(D!CloseE /\ Ev.a = (IF D!CloseRaises THEN 0 ELSE 1)
                                           /\ handle' = Hd /\ outq' = Ev.q)
      [] Ev.e = "wr"     -> IF kind = "radio"
                            THEN Conform(D!TWr(Ev.o) /\ cur = Ev.a)
                            ELSE Conform(\/ (Ev.a = 0 /\ (D!ConnW \/ D!CloseW))
                                         \/ (Ev.a # 0 /\ Ev.a = req /\ D!SendWr))
      [] Ev.e = "wx"     -> IF kind = "radio" THEN Conform(D!TWx) ELSE Skip
      [] Ev.e = "ack"    -> Conform(D!TAck)
      [] Ev.e = "og"     -> Conform(D!TGet(Ev.a))
      [] Ev.e = "lerr"   -> IF kind = "usb" THEN Conform(D!TErr) ELSE Skip   \* radio: part of TAck
      [] Ev.e = "rd"     -> IF kind = "usb" THEN Conform(D!TRead) ELSE Skip
      [] Ev.e = "rr"     -> IF kind = "usb" THEN Conform(D!TRet) ELSE Skip
      [] Ev.e = "unplug" -> Conform(D!Unplug)
      [] Ev.e = "jam"    -> Conform(D!Jam)
      [] OTHER -> Skip

Step == /\ l <= Len(T.ev) /\ l' = l + 1 /\ UNCHANGED tid
        /\ m' = P!MonStep(m, EvP)
        /\ LET c == P!EvClause(m, EvP) IN
           IF bad = "ok" /\ c # "ok" THEN bad' = c /\ badAt' = l ELSE UNCHANGED <<bad, badAt>>
        /\ Explained

Finish == /\ l = Len(T.ev) + 1 /\ l' = l + 1
          /\ PrintT(<<"VERDICT", T.id, bad, badAt, conf, confAt>>)
          /\ UNCHANGED <<tid, m, bad, badAt, conf, confAt, specvars>>

Next == Step \/ Finish
Spec == Init /\ [][Next]_<<tid, l, m, bad, badAt, conf, confAt, specvars>>
=============================================================================
