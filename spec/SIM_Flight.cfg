SPECIFICATION Spec
CONSTANTS
  Helper = "MC"
  Mode = "with"
  Prims <- McThorough
  MaxLen = 6
  DH = 300
  DV = 500
  DL = 0
  Period = 200
  Bug = "none"
INVARIANT NoViolation
INVARIANT Ended
CHECK_DEADLOCK FALSE
