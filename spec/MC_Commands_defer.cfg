SPECIFICATION Spec
CONSTANTS
  Versions <- DeferVersions
  Cmds <- DeferCmds
  ArgSets <- ArgSetsDefer
  HdrPorts <- Ports16
  HdrChans <- Chans4
  Links <- LinksBoth
  Cap = 1
  Chained = FALSE
  Bug = "none"
INVARIANT EmissionsOK
INVARIANT HeadersOK
INVARIANT RepresentableIsSent
INVARIANT TypeOK
CHECK_DEADLOCK FALSE
