SPECIFICATION Spec
CONSTANTS
  Mode = "pipe"
  BsIds = {1, 2, 3, 4, 5}
  MaxMeas = 12
  Deltas <- DeltasSim
  Diffs = {0, 1, 2, 3}
  MinBs = {0, 1, 2, 3}
  MaxSamples = 0
  SampleSets <- NoSampleSets
  MaxOutliers = 0
  Bug = "none"
  PrintCases = FALSE
INVARIANT MatchOK
INVARIANT EstOK
CHECK_DEADLOCK FALSE
