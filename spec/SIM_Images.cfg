SPECIFICATION Spec
CONSTANTS
  Bug = "none"
  Fmts <- FmtsAll
  CaseSet <- CasesSim
  MkCase <- MCMkCase
  MaxCorrupt = 1
  CorruptPos <- CorPosSim
  CorruptVals <- ValsSim
INVARIANT CaseOK
INVARIANT EnvelopeGuard
INVARIANT TypeOK
CHECK_DEADLOCK FALSE
