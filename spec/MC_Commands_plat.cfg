SPECIFICATION Spec
CONSTANTS
  Versions <- PlatVersions
  Cmds <- PlatCmds
  ArgSets <- ArgSetsPlat
  HdrPorts <- Ports16
  HdrChans <- Chans4
  PlatPackets <- PlatAll
  Links <- LinksNow
  Cap = 1
  Chained = FALSE
  Bug = "none"
INVARIANT EmissionsOK
INVARIANT HeadersOK
INVARIANT RepresentableIsSent
INVARIANT TypeOK
INVARIANT VersionKept
CHECK_DEADLOCK FALSE
