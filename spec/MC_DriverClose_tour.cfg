SPECIFICATION Spec
CONSTANTS
  Kinds = {"usb", "tcp", "udp", "radio"}
  CbModes = {TRUE, FALSE}
  SlModes = {TRUE}
  Bug = "none"
  Faults = {"none", "f1", "f2"}
  MaxOps = 3
  MaxSess = 2
  MaxReq = 2
  MaxIdle = 1
  MaxErr = 1
  HsMax = 10
  Retries = 3
  JamLen = 4
  KeepHistory = TRUE
INVARIANT HistoryOK
CHECK_DEADLOCK FALSE
