SPECIFICATION Spec
CONSTANTS
  MaxN = 2
  NOps = 1
  Kinds <- AllKinds
  ArgDicts <- ArgDictsOne
  Bug = "none"
INVARIANT RetOK
INVARIANT FinalOK
INVARIANT QuietAtBoundary
INVARIANT OpenFlagMeans
INVARIANT OpenSucceeds
INVARIANT TypeOK
CHECK_DEADLOCK FALSE
