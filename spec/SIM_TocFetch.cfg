SPECIFICATION Spec
CONSTANTS
  Configs <- ConfigsSim
  Budget = 4
  Window <- WindowAll
  Bug = "none"
CHECK_DEADLOCK FALSE
