SPECIFICATION Spec
CONSTANTS
  Configs <- ConfigsSim
  Budget = 4
  Bug = "none"
CHECK_DEADLOCK FALSE
