SPECIFICATION Spec
CONSTANTS
  Packets <- NoPackets
  MaxPackets = 0
  NR = 0
  RFns <- RFnsTcp
  SendSets <- Send2Tcp
  MaxSends = 3
  Mode = "tcp"
  LateRegister = FALSE
  Bug = "none"
INVARIANT TypeOK
INVARIANT CodecOK
INVARIANT ReadsOK
INVARIANT RouteOK
INVARIANT DownOK
INVARIANT UpOK
CHECK_DEADLOCK FALSE
