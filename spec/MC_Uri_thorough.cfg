SPECIFICATION Spec
CONSTANTS
  Bug = "none"
  EnvSet <- EnvThorough
  Ops <- AllOps
  Schemes <- AllSchemes
  Dongles <- DonglesThorough
  Chans = {0, 2, 125}
  Rates = {"250K", "1M", "2M"}
  AddrSet <- AddrThorough
  RateLimits <- RlQuick
  ScanAddrs <- ScanAddrsThorough
  RespSets <- RespThorough
  NOps = 1
INVARIANT ParseOK
INVARIANT ClaimOK
INVARIANT LookupOK
INVARIANT OpenOK
INVARIANT ScanOK
INVARIANT ScanComplete
INVARIANT BigStepAgrees
INVARIANT TypeOK
CHECK_DEADLOCK FALSE
